#!/usr/bin/env python3
"""Regenerates the measured tables of DESIGN.md (between the BEGIN/END markers) from
selftest/*.json and seeded/*/meta.json."""
import json, glob, os, re
V = os.path.dirname(os.path.dirname(os.path.abspath(__file__)))
def table_sens():
    rows = json.load(open(os.path.join(V, "selftest", "sensitivity.json")))
    out = ["| edit | check | expected | exit | violation classes | s | verdict |", "|---|---|---|---|---|---|---|"]
    for r in rows:
        out.append("| %s | %s | %s | %d | %d | %.1f | %s |" % (r["mutant"], r["check"], r["expected"], r["exit"], r["violations"], r["seconds"], r["verdict"]))
    n = len(rows); bad = sum(1 for r in rows if r["verdict"] != "ok")
    out.append("")
    out.append("%d entries (%d built-in edits, %d kept seeded changes, %d behaviour-preserving rewrites), %d wrong verdicts. Quick tier, default VERIF_SEED; an earlier complete run with VERIF_SEED=1 (the seed the external check harness uses) gave the same verdicts for everything that existed then." % (n, sum(1 for r in rows if not r["mutant"].startswith(("seeded/", "harmless/"))), sum(1 for r in rows if r["mutant"].startswith("seeded/")), sum(1 for r in rows if r["mutant"].startswith("harmless/")), bad))
    return "\n".join(out)
def table_det():
    rows = json.load(open(os.path.join(V, "selftest", "determinism.json")))
    out = ["| engine | mode | profile | run digests compared | processes (worker counts) | identical |", "|---|---|---|---|---|---|"]
    for r in rows:
        out.append("| %s | %s | %s | %d | %d (%s) | %s |" % (r["engine"], r.get("mode", "-"), r.get("profile", "miri"), r.get("runs", 1), r["processes"], ",".join(map(str, r.get("worker_counts", []))) or "-", "yes" if r["identical"] else "NO"))
    return "\n".join(out)
def table_seeded():
    out = ["| kept change | property | what it needs to manifest | caught by |", "|---|---|---|---|"]
    for d in sorted(glob.glob(os.path.join(V, "seeded", "*"))):
        mp = os.path.join(d, "meta.json")
        if not os.path.exists(mp): continue
        m = json.load(open(mp))
        out.append("| `seeded/%s` | %s | %s | %s |" % (os.path.basename(d), m["property"], m["needs_to_manifest"].replace("|", "¦"), m["caught_by"].replace("|", "¦")))
    return "\n".join(out)
def table_harmless():
    out = ["| refactor (independent sub-agent) | patches | checks that must stay quiet | result |", "|---|---|---|---|"]
    for d in sorted(glob.glob(os.path.join(V, "harmless", "*"))):
        mp = os.path.join(d, "meta.json")
        if not os.path.exists(mp): continue
        m = json.load(open(mp))
        out.append("| `harmless/%s`: %s | %s | %s | %s |" % (os.path.basename(d), m["summary"].replace("|", "¦"), ", ".join((x if isinstance(x, str) else x["file"] + " (C16: caught)") for x in m["patches"]), ", ".join(m["properties"]), m["result"]))
    return "\n".join(out)
def table_cov():
    path = os.path.join(V, "selftest", "coverage.json")
    if not os.path.exists(path):
        return "(not run)"
    d = json.load(open(path))
    rows = ["| library file | engine | lines executed | regions executed | functions executed | lines holding a region never executed |", "|---|---|---|---|---|---|"]
    for f, r in sorted(d["files"].items()):
        rows.append("| `%s` | %s | %d / %d | %d / %d | %d / %d | %s |" % (f, r["engine"], r["lines_executed"], r["lines"], r["regions_executed"], r["regions"], r["functions_executed"], r["functions"], ", ".join(map(str, r["lines_with_an_unexecuted_region"])) or "-"))
    return "\n".join(rows)


def table_mut():
    path = os.path.join(V, "selftest", "mutsweep.json")
    if not os.path.exists(path):
        return "(not run)"
    rows = json.load(open(path))
    out = ["| file, operator set | mutants | do not compile | killed by the reduced workload | killed by the quick tier only | survived |", "|---|---|---|---|---|---|"]
    for f in sorted(set((r["file"], r.get("ops", "token")) for r in rows)):
        rs = [r for r in rows if (r["file"], r.get("ops", "token")) == f]
        f = "%s, %s" % f
        c = lambda v: sum(1 for r in rs if r["verdict"] == v)
        out.append("| `%s` | %d | %d | %d | %d | %d |" % (f.replace(", ", "`, `"), len(rs), c("does not compile"), c("killed (reduced workload)"), c("killed (quick tier)"), c("SURVIVED")))
    out.append("")
    out.append("Survivors, each reviewed by hand (grouped by the reason they are equivalent):")
    out.append("")
    out.append("| survivors | example (file:line, edit) | review |")
    out.append("|---|---|---|")
    groups = {}
    for r in rows:
        if r["verdict"] == "SURVIVED":
            groups.setdefault(r.get("review", "NOT REVIEWED"), []).append(r)
    for rev, rs in groups.items():
        r = rs[0]
        out.append("| %d | `%s`:%d `%s` -> `%s` | %s |" % (len(rs), os.path.basename(r["file"]), r["line"], r["from"][:60].replace("|", "¦"), r["to"][:60].replace("|", "¦"), rev))
    return "\n".join(out)


p = os.path.join(V, "DESIGN.md")
s = open(p).read()
for name, fn in (("MUTSWEEP", table_mut), ("COVERAGE", table_cov), ("SENSITIVITY", table_sens), ("DETERMINISM", table_det), ("SEEDED", table_seeded), ("HARMLESS", table_harmless)):
    b, e = "<!-- BEGIN:%s -->" % name, "<!-- END:%s -->" % name
    if b in s and e in s:
        s = s[:s.index(b) + len(b)] + "\n" + fn() + "\n" + s[s.index(e):]
open(p, "w").write(s)
print("tables regenerated")
