#!/bin/bash
# Confirms a sub-agent's seeded change in its scratch worktree, runs the registered check against it
# (patch applied to /repo and reverted straight afterwards), and files it under /verif/seeded/<id>/.
# usage: seedcheck.sh <worktree> <id> <property> "<cargo -p args>" <demo path relative to worktree> [--release]
set -u
WT=$1; ID=$2; PROP=$3; PKGS=$4; DEMO=$5; REL=${6:-}
export CARGO_TARGET_DIR=/tmp/seed-target CARGO_NET_OFFLINE=true
cd "$WT" || exit 2
[ -f mutation.patch ] || { echo "no mutation.patch"; exit 2; }
echo "== patch:"; cat mutation.patch | head -80
# normalise: worktree = HEAD + patch
git checkout -q -- . ; git apply mutation.patch || { echo "patch does not apply"; exit 2; }
mv "$DEMO" /tmp/demo_hold.rs
echo "== existing tests WITH the change (debug):"
cargo test $PKGS --offline 2>&1 | grep -E "^test result|FAILED|error(\[|:)" | sort | uniq -c
EXIST=$?
mv /tmp/demo_hold.rs "$DEMO"
DEMONAME=$(basename "$DEMO" .rs)
echo "== demo WITH the change (must fail):"
cargo test $PKGS --offline $REL --test "$DEMONAME" 2>&1 | grep -E "^test result|panicked|FAILED" | head -5
git apply -R mutation.patch
echo "== demo WITHOUT the change (must pass):"
cargo test $PKGS --offline $REL --test "$DEMONAME" 2>&1 | grep -E "^test result|panicked|FAILED" | head -5
git apply mutation.patch
echo "== registered check against the change:"
if vp runs 2>/dev/null | grep -q "  running "; then echo "a vp background run is active and uses /repo: refusing to patch /repo now"; exit 3; fi
if [ -n "$(git -C /repo status --porcelain --untracked-files=no)" ]; then echo "/repo dirty"; exit 2; fi
git -C /repo apply "$WT/mutation.patch" || { echo "does not apply to /repo"; exit 2; }
(cd /verif && ./check "$PROP" --tier quick 2>&1 | tail -12; echo "check exit=${PIPESTATUS[0]}")
git -C /repo checkout -- .
mkdir -p /verif/seeded/$ID
cp mutation.patch /verif/seeded/$ID/patch.diff
cp "$DEMO" /verif/seeded/$ID/
[ -f NOTES.md ] && cp NOTES.md /verif/seeded/$ID/
echo "== filed under /verif/seeded/$ID"
