#!/usr/bin/env python3
"""Systematic syntactic mutation sweep over the anchored library files (a complement to the
independently seeded changes of DESIGN.md section 11: those are few and clever, these are many
and dumb).

For every mutant (one small token-level edit of one line of /repo's working tree, reverted
straight afterwards) the simulators are rebuilt and a REDUCED workload is run; a mutant that
survives it is run against the full registered quick checks; what survives those is listed for
manual review (equivalent mutant, or a hole).  Nothing here is a registered check.

  tools/mutsweep.py [--swap] [reader|writer|treap|node|lcg|numtraits|macro]...     default: the first four
  --swap: instead of token-level edits, exchange adjacent statements (order-of-operations defects)
  results: selftest/mutsweep.json
"""
import json, os, re, subprocess, sys, time

V = os.path.dirname(os.path.dirname(os.path.abspath(__file__)))
sys.path.insert(0, os.path.join(V, "lib"))
import vcheck  # noqa: E402
from vcheck import REPO, ENV, WORK, cargo_build, run  # noqa: E402

# key: (file, reduced workload, registered checks a survivor is run against)
FILES = {
    "reader": ("rlib/io/src/reader.rs", "reader", ["C08", "C09"]),
    "writer": ("rlib/io/src/writer.rs", "writer", ["C09"]),
    "treap": ("rlib/treap/src/treap.rs", "treap", ["C03", "C16"]),
    "node": ("rlib/treap/src/treap_node.rs", "treap", ["C03", "C16", "C17"]),
    "lcg": ("rlib/rand/src/lcg.rs", "treap", ["C16", "C03"]),
    "randlib": ("rlib/rand/src/lib.rs", "treap", ["C16", "C03"]),
    "numtraits": ("rlib/num_traits/src/lib.rs", "writer", ["C09"]),
    "macro": ("rlib/io/src/output_macro.rs", "writer", ["C09"]),
}
OPS = "token"  # or "swap": adjacent expression statements exchanged

REL = [(" < ", " <= "), (" <= ", " < "), (" > ", " >= "), (" >= ", " > "), (" == ", " != "), (" != ", " == ")]
ARITH = [(" + 1", " + 2"), (" + 1", ""), (" - 1", ""), (" - 1", " - 2"), (" + ", " - "), (" - ", " + "), (" += ", " -= "), (" * 10", " * 9"), (" / 10", " / 9"), (" % 10", " % 9")]
BOOL = [(" && ", " || "), (" || ", " && "), ("!reader.eof", "reader.eof"), ("!self.eof", "self.eof"), (".is_some()", ".is_none()"), (".is_none()", ".is_some()"), ("true", "false"), ("false", "true")]
CONST = [(r"\b0\b", "1"), (r"\b1\b", "0"), (r"\b1\b", "2"), (r"\b10\b", "11"), (r"\b16\b", "15"), (r"\b32\b", "31")]
SWAP = [("left", "right"), ("right", "left"), ("begin", "end"), ("Some(", "None::<()>.map(|_| "), (".min(", ".max("), (".max(", ".min("), ("wrapping_mul(", "wrapping_add("), (".wrapping_add(C)", ""), ("wrapping_mul(A)", "wrapping_mul(A | 2)"),
        ("6364136223846793005", "6364136223846793004"), ("1442695040888963407", "1442695040888963408")]


def mutants_of(path):
    text = open(os.path.join(REPO, path)).read().split("\n")
    out = []
    in_verif = 0
    if OPS == "swap":
        def stmt(l):
            t = l.strip()
            return t.endswith(";") and not t.startswith(("let ", "return", "//", "use ", "#[", "const ", "type ", "static ")) and "debug_assert" not in t and t.count("(") == t.count(")") and t.count("{") == t.count("}")
        for i in range(len(text) - 1):
            if 'cfg(' in text[i] or (i > 0 and 'cfg(' in text[i - 1]) or 'cfg(' in text[i + 1]:
                continue
            a, b = text[i], text[i + 1]
            # also exchange a `let` with the statement after it when that compiles (the compiler decides)
            if (stmt(a) or a.strip().startswith("let ")) and stmt(b) and a.strip() != b.strip() and len(a) - len(a.lstrip()) == len(b) - len(b.lstrip()):
                out.append((i, a + " /// " + b.strip(), b + "\n" + a))
        return text, out
    for i, line in enumerate(text):
        s = line.strip()
        if 'cfg(feature = "verif")' in s:
            in_verif = 6  # the guarded item follows; never mutate the seam
        if in_verif:
            in_verif -= 1
            continue
        if not s or s.startswith("//") or s.startswith("use ") or s.startswith("#[") or s.startswith("pub mod") or s.startswith("mod "):
            continue
        if "debug_assert" in s or s.startswith("fn ") or s.startswith("pub fn ") or s.startswith("impl") or s.startswith("pub struct") or s.startswith("pub trait") or s.startswith("macro_rules"):
            continue
        cands = []
        for a, b in REL + ARITH + BOOL + SWAP:
            idx = line.find(a)
            if idx >= 0 and "->" not in line[max(0, idx - 1): idx + 3]:
                cands.append(line[:idx] + b + line[idx + len(a):])
        for rx, b in CONST:
            m = re.search(rx, line)
            if m and "<<" not in line[max(0, m.start() - 4): m.start()] and "usize; " not in line:
                cands.append(line[: m.start()] + b + line[m.end():])
        # statement deletion: a line that is one complete expression statement
        if s.endswith(";") and not s.startswith("let ") and not s.startswith("return") and "{" not in s and "}" not in s and s.count("(") == s.count(")"):
            cands.append(line[: len(line) - len(line.lstrip())] + "/* deleted */")
        seen = set()
        for c in cands:
            if c != line and c not in seen:
                seen.add(c)
                out.append((i, line, c))
    return text, out


def restore():
    subprocess.run(["git", "-C", REPO, "checkout", "--", "."], check=True)


def build(pkgs):
    for pkg, prof in pkgs:
        try:
            cargo_build_quiet(pkg, prof)
        except Exception:
            return False
    return True


def cargo_build_quiet(package, profile):
    cmd = ["cargo", "build", "--offline", "--quiet", "--manifest-path", os.path.join(vcheck.SIM, "Cargo.toml"), "--profile", profile, "-p", package]
    p = subprocess.run(cmd, cwd=vcheck.SIM, env=ENV, stdout=subprocess.PIPE, stderr=subprocess.STDOUT, text=True)
    if p.returncode != 0:
        raise RuntimeError("build failed")


def killed_by(cmds):
    """Runs the reduced workloads; returns a description of the first one that notices."""
    for cmd, out in cmds:
        if out and os.path.exists(out):
            os.remove(out)
        env = dict(ENV)
        env["VERIF_HANG_SECS"] = "10"
        try:
            # a mutant may loop while allocating: cap the address space (allocation failure aborts)
            rc, so, se = run(["prlimit", "--as=%d" % (24 << 30)] + cmd, env=env, timeout=300)
        except subprocess.TimeoutExpired:
            return "timeout " + cmd[1]
        if rc != 0:
            return "exit %d %s" % (rc, cmd[1])
        try:
            j = json.load(open(out)) if out else json.loads(so)
        except Exception:
            return "no summary " + cmd[1]
        v = j.get("violations") or ([j["violation"]] if j.get("violation") else [])
        if v:
            return "%s: %s" % (" ".join(cmd[1:4]), v[0]["class"])
    return None


def reduced(kind):
    T = vcheck.TARGET
    rd = os.path.join(WORK, "mutsweep")
    os.makedirs(rd, exist_ok=True)
    io_rel, io_dbg, tr = os.path.join(T, "sim-rel", "iosim"), os.path.join(T, "sim-dbg", "iosim"), os.path.join(T, "sim-dbg", "treapsim")
    o = lambda n: os.path.join(rd, n + ".json")
    common = ["--replay-dir", rd, "--tag", "m"]
    if kind == "reader":
        return [
            ([io_rel, "reader", "--runs", "40000", "--long", "200", "--out", o("r1")] + common, o("r1")),
            ([io_dbg, "reader", "--runs", "20000", "--long", "0", "--out", o("r2")] + common, o("r2")),
            ([io_rel, "census", "--side", "reader", "--every32", "2048", "--wide-blocks", "4", "--out", o("r3")] + common, o("r3")),
        ]
    if kind == "writer":
        return [
            ([io_rel, "writer", "--runs", "8000", "--sweep", "1", "--out", o("w1")] + common, o("w1")),
            ([io_dbg, "writer", "--runs", "4000", "--sweep", "1", "--out", o("w2")] + common, o("w2")),
            ([io_rel, "census", "--side", "writer", "--every32", "2048", "--wide-blocks", "4", "--out", o("w3")] + common, o("w3")),
        ]
    cmds = [([tr, "ctl", "--runs", "60000", "--out", o("t1"), "--replay-dir", rd], o("t1"))]
    for h in (0, 4, 10, 13, 14):
        cmds.append(([tr, "real", "--history", str(h), "--n", "4000", "--mode", "1", "--stride", "3", "--seed", "5"], None))
    return cmds


def main(argv):
    global OPS
    if argv and argv[0] == "--swap":
        OPS = "swap"
        argv = argv[1:]
    kinds = argv or ["reader", "writer", "treap", "node"]
    if subprocess.run(["git", "-C", REPO, "status", "--porcelain", "--untracked-files=no"], stdout=subprocess.PIPE, text=True).stdout.strip():
        print("/repo dirty")
        return 2
    results = []
    path_out = os.path.join(V, "selftest", "mutsweep.json")
    if os.path.exists(path_out):
        results = [r for r in json.load(open(path_out)) if not (r["file_kind"] in kinds and r.get("ops", "token") == OPS)]
    saved = {p: open(os.path.join(vcheck.EVIDENCE, p + ".json")).read() for p in ("C03", "C08", "C09", "C16", "C17") if os.path.exists(os.path.join(vcheck.EVIDENCE, p + ".json"))}
    try:
        for kind in kinds:
            path, engine, props = FILES[kind]
            text, muts = mutants_of(path)
            pkgs = [("iosim", "sim-rel"), ("iosim", "sim-dbg")] if engine in ("reader", "writer") else [("treapsim", "sim-dbg")]
            print("%s: %d candidate mutants" % (path, len(muts)), flush=True)
            for n, (i, old, new) in enumerate(muts):
                t0 = time.time()
                lines = list(text)
                if OPS == "swap":
                    lines[i:i + 2] = new.split("\n")
                else:
                    lines[i] = new
                open(os.path.join(REPO, path), "w").write("\n".join(lines))
                row = {"file_kind": kind, "ops": OPS, "file": path, "line": i + 1, "from": old.strip(), "to": " ; ".join(x.strip() for x in new.split("\n"))}
                try:
                    if not build(pkgs):
                        row["verdict"] = "does not compile"
                    else:
                        k = killed_by(reduced(engine))
                        if k:
                            row["verdict"], row["by"] = "killed (reduced workload)", k
                        else:
                            # full registered quick checks
                            hit = None
                            for p in props:
                                rc, so, se = run([os.path.join(V, "check"), p, "--tier", "quick"], timeout=1800)
                                if rc == 1 and "VIOLATION" in so + se:
                                    m = re.search(r"class:\s+(\S+)", so + se)
                                    hit = "%s quick: %s" % (p, m.group(1) if m else "?")
                                    break
                                if rc not in (0, 1):
                                    hit = "%s quick: exit %d" % (p, rc)
                                    break
                            for f in os.listdir(vcheck.REPLAYS):
                                if f.endswith(".json"):
                                    os.remove(os.path.join(vcheck.REPLAYS, f))
                            if hit:
                                row["verdict"], row["by"] = "killed (quick tier)", hit
                            else:
                                row["verdict"] = "SURVIVED"
                finally:
                    restore()
                row["seconds"] = round(time.time() - t0, 1)
                results.append(row)
                print("%-7s %4d/%d line %3d  %-28s %s  [%s -> %s]" % (kind, n + 1, len(muts), i + 1, row["verdict"], row.get("by", "")[:60], old.strip()[:50], new.strip()[:50]), flush=True)
                json.dump(results, open(path_out, "w"), indent=1)
    finally:
        restore()
        for p, t in saved.items():
            open(os.path.join(vcheck.EVIDENCE, p + ".json"), "w").write(t)
    surv = [r for r in results if r["verdict"] == "SURVIVED"]
    print("mutants: %d, not compiling: %d, killed: %d, survived: %d" % (len(results), sum(1 for r in results if r["verdict"] == "does not compile"), sum(1 for r in results if r["verdict"].startswith("killed")), len(surv)))
    return 0


if __name__ == "__main__":
    sys.exit(main(sys.argv[1:]))
