#!/bin/bash
# Runs every registered quick check on the current tree and validates MANIFEST + evidence.
cd /verif || exit 2
if [ -n "$(git -C /repo status --porcelain --untracked-files=no)" ]; then echo "/repo is dirty"; exit 2; fi
rc=0
for p in C03 C08 C09 C16 C17; do ./check $p --tier ${1:-quick} | tail -1; [ ${PIPESTATUS[0]} -eq 0 ] || rc=1; done
python3-vt - <<'PY' || rc=1
import json, jsonschema
m = json.load(open('/verif/MANIFEST.json'))
jsonschema.validate(m, json.load(open('/root/.vp/MANIFEST.schema.json')))
ids = {json.loads(l)['id'] for l in open('/verif/properties.jsonl')}
claimed = {c['property_id'] for c in m['checks']}
na = {e['property_id'] for e in m['not_applicable']}
assert claimed | na == ids and not (claimed & na), (claimed, na)
for p in sorted(claimed):
    e = json.load(open('/verif/evidence/%s.json' % p))
    jsonschema.validate(e, json.load(open('/root/.vp/EVIDENCE.schema.json')))
    assert e['violations'] == 0, p
print('manifest + evidence valid; claimed', sorted(claimed))
PY
exit $rc
