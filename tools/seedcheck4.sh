#!/bin/bash
# Round-4 format: <worktree>/mutation_<i>.patch + <worktree>/demo_<i>.rs
# usage: seedcheck4.sh <worktree> <i> <id> <property> "<cargo -p args>" <tests dir relative to worktree> [--release] [miri]
set -u
WT=$1; I=$2; ID=$3; PROP=$4; PKGS=$5; TDIR=$6; REL=${7:-}; MIRI=${8:-}
export CARGO_TARGET_DIR=/tmp/seed-target CARGO_NET_OFFLINE=true
cd "$WT" || exit 2
P=$WT/mutation_$I.patch; D=$WT/demo_$I.rs
[ -f "$P" ] && [ -f "$D" ] || { echo "missing $P or $D"; exit 2; }
git checkout -q -- . ; rm -f "$TDIR/demo_mutation.rs"
git apply "$P" || { echo "patch does not apply"; exit 2; }
echo "== existing tests WITH the change (debug):"
cargo test $PKGS --offline 2>&1 | grep -E "^test result|FAILED|error(\[|:)" | sort | uniq -c
cp "$D" "$TDIR/demo_mutation.rs"
run_demo() {
  if [ "$MIRI" = "miri" ]; then
    MIRIFLAGS="-Zmiri-many-seeds=0..16 -Zmiri-preemption-rate=0.3 -Zmiri-ignore-leaks" cargo +nightly miri test --offline $PKGS --test demo_mutation 2>&1 | grep -E "^test result|panicked|FAILED|Undefined Behavior|error:" | head -5
  else
    for k in 1 2 3; do cargo test $PKGS --offline $REL --test demo_mutation 2>&1 | grep -E "^test result|panicked|FAILED" | head -3; done | sort | uniq -c | head -6
  fi
}
echo "== demo WITH the change (must fail):"; run_demo
git apply -R "$P"
echo "== demo WITHOUT the change (must pass):"; run_demo
rm -f "$TDIR/demo_mutation.rs"
echo "== registered check against the change:"
if vp runs 2>/dev/null | grep -q "  running "; then echo "a vp background run is active: refusing to patch /repo"; exit 3; fi
if [ -n "$(git -C /repo status --porcelain --untracked-files=no)" ]; then echo "/repo dirty"; exit 2; fi
git -C /repo apply "$P" || { echo "does not apply to /repo"; exit 2; }
(cd /verif && ./check "$PROP" --tier quick 2>&1 | grep -E "VIOLATION|class:|detail:|quick:|HARNESS" | cut -c1-260 | head -14; echo "check exit=${PIPESTATUS[0]}")
git -C /repo checkout -- .
mkdir -p /verif/seeded/$ID
cp "$P" /verif/seeded/$ID/patch.diff; cp "$D" /verif/seeded/$ID/demo_mutation.rs
python3 - "$WT/NOTES.md" "$I" > /verif/seeded/$ID/NOTES.md <<'PY'
import sys
print(open(sys.argv[1]).read())
PY
echo "== filed under /verif/seeded/$ID"
