#!/bin/bash
# Runs registered quick checks against a behaviour-preserving change (patch applied to /repo and
# reverted straight afterwards); every check must stay quiet (exit 0).
# usage: okcheck.sh <patch> <property>...
set -u
PATCH=$1; shift
if vp runs 2>/dev/null | grep -q "  running "; then echo "a vp background run is active and uses /repo: refusing"; exit 3; fi
if [ -n "$(git -C /repo status --porcelain --untracked-files=no)" ]; then echo "/repo dirty"; exit 2; fi
git -C /repo apply "$PATCH" || { echo "patch does not apply"; exit 2; }
rc=0
for p in "$@"; do
  (cd /verif && ./check "$p" --tier quick 2>&1 | tail -6); c=${PIPESTATUS[0]}
  echo "check $p exit=$c"; [ "$c" -eq 0 ] || rc=1
done
git -C /repo checkout -- .
exit $rc
