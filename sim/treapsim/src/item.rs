//! The stub item stored in the treap (the library is generic over it): a value, a pending
//! *affine* modification x -> a*x + b (mod 2^61-1) for the subtree below — composition is not
//! commutative and covers both "assign" (a = 0) and "add" (a = 1) — and an order-sensitive
//! aggregate of the subtree (size, sum, polynomial hash).  Written exactly in the pattern of the
//! library's README / test item: `modify` applies to the node itself and its aggregate and
//! records the map for the children; `push` hands it to the children and clears it.

use rlib_treap::{TreapItem, TreapItemSized};
use std::cell::Cell;

pub const P: u64 = (1u64 << 61) - 1;
pub const BASE: u64 = 1_000_003;

#[inline]
pub fn mulmod(a: u64, b: u64) -> u64 {
    ((a as u128 * b as u128) % P as u128) as u64
}
#[inline]
pub fn addmod(a: u64, b: u64) -> u64 {
    let s = a + b; // both < 2^61
    if s >= P {
        s - P
    } else {
        s
    }
}

thread_local! {
    /// pushes that carried a non-identity map to at least one child (probe)
    pub static NONID_PUSHES: Cell<u64> = Cell::new(0);
    /// pushes whose map was a composition of >= 2 attached modifications (probe)
    pub static COMPOSED_PUSHES: Cell<u64> = Cell::new(0);
}

#[derive(Clone, Debug)]
pub struct It {
    /// immutable identity of the element (never touched by modifications)
    pub uid: u32,
    pub x: u64,
    /// pending map for the children: x -> pa*x + pb; identity = (1, 0)
    pub pa: u64,
    pub pb: u64,
    /// asymmetric part of the pending map: added to the FIRST element of the subtree only, so the
    /// left and the right child receive different maps (left: (pa, pb, pd); right: (pa, pb, 0))
    pub pd: u64,
    /// size of the left subtree as of the last update(): tells whether this node is itself the
    /// first element of its subtree
    pub ln: usize,
    /// how many attached modifications the pending map is composed of
    pub pdepth: u32,
    // aggregate over the subtree, in sequence order
    pub n: usize,
    pub sum: u64,
    pub hash: u64,
    /// BASE^n
    pub pw: u64,
    /// 1 + BASE + ... + BASE^(n-1)
    pub g: u64,
}

impl It {
    pub fn new(uid: u32, x: u64) -> It {
        It { uid, x: x % P, pa: 1, pb: 0, pd: 0, ln: 0, pdepth: 0, n: 1, sum: x % P, hash: x % P, pw: BASE, g: 1 }
    }
    pub fn pending_is_identity(&self) -> bool {
        self.pa == 1 && self.pb == 0 && self.pd == 0
    }
    /// Attach the modification x -> a*x + b to the subtree rooted at this item.
    pub fn modify(&mut self, a: u64, b: u64) {
        self.modify_depth(a, b, 0, 1)
    }
    /// Attach x -> a*x + b to every element of the subtree and, after that, add d to its FIRST
    /// element: a lawful modification under which the two children get different maps.
    pub fn modify_first(&mut self, a: u64, b: u64, d: u64) {
        self.modify_depth(a, b, d, 1)
    }
    fn modify_depth(&mut self, a: u64, b: u64, d: u64, depth: u32) {
        self.x = addmod(mulmod(a, self.x), b);
        if self.ln == 0 {
            // no left subtree: this node is the first element
            self.x = addmod(self.x, d);
        }
        self.sum = addmod(addmod(mulmod(a, self.sum), mulmod(b, self.n as u64 % P)), d);
        // the first element has weight BASE^0 in the hash
        self.hash = addmod(addmod(mulmod(a, self.hash), mulmod(b, self.g)), d);
        // new pending = (this map) after (old pending)
        self.pa = mulmod(a, self.pa);
        self.pb = addmod(mulmod(a, self.pb), b);
        self.pd = addmod(mulmod(a, self.pd), d);
        self.pdepth = self.pdepth.saturating_add(depth);
    }
}

/// Aggregate of a sequence of values (the fold the property talks about).
#[derive(Clone, Copy, PartialEq, Eq, Debug)]
pub struct Agg {
    pub n: usize,
    pub sum: u64,
    pub hash: u64,
    pub pw: u64,
    pub g: u64,
}

pub fn fold(values: impl Iterator<Item = u64>) -> Agg {
    let mut a = Agg { n: 0, sum: 0, hash: 0, pw: 1, g: 0 };
    for v in values {
        a.hash = addmod(a.hash, mulmod(a.pw, v));
        a.g = addmod(a.g, a.pw);
        a.pw = mulmod(a.pw, BASE);
        a.sum = addmod(a.sum, v);
        a.n += 1;
    }
    a
}

impl It {
    pub fn agg(&self) -> Agg {
        Agg { n: self.n, sum: self.sum, hash: self.hash, pw: self.pw, g: self.g }
    }
}

impl TreapItem for It {
    fn update(&mut self, left: Option<&Self>, right: Option<&Self>) {
        let (ln, ls, lh, lp, lg) = left.map(|l| (l.n, l.sum, l.hash, l.pw, l.g)).unwrap_or((0, 0, 0, 1, 0));
        let (rn, rs, rh, rp, rg) = right.map(|r| (r.n, r.sum, r.hash, r.pw, r.g)).unwrap_or((0, 0, 0, 1, 0));
        self.n = ln + 1 + rn;
        self.ln = ln;
        self.sum = addmod(addmod(ls, self.x), rs);
        let lpb = mulmod(lp, BASE);
        self.hash = addmod(addmod(lh, mulmod(lp, self.x)), mulmod(lpb, rh));
        self.pw = mulmod(lpb, rp);
        self.g = addmod(addmod(lg, lp), mulmod(lpb, rg));
    }

    fn push(&mut self, left: Option<&mut Self>, right: Option<&mut Self>) {
        if self.pending_is_identity() && self.pdepth == 0 {
            return;
        }
        let (a, b, first, d) = (self.pa, self.pb, self.pd, self.pdepth);
        let mut carried = false;
        if let Some(l) = left {
            // the first element of this subtree lies in the left subtree
            l.modify_depth(a, b, first, d);
            carried = true;
        }
        if let Some(r) = right {
            r.modify_depth(a, b, 0, d);
            carried = true;
        }
        if carried {
            NONID_PUSHES.with(|c| c.set(c.get() + 1));
            if d >= 2 {
                COMPOSED_PUSHES.with(|c| c.set(c.get() + 1));
            }
        }
        self.pa = 1;
        self.pb = 0;
        self.pd = 0;
        self.pdepth = 0;
    }
}

impl TreapItemSized for It {
    fn size(&self) -> usize {
        self.n
    }
}

/// Plain sized item without lazy state, for the large real-priority histories (C16).
pub struct Plain {
    pub key: u32,
    pub sz: usize,
}

impl Plain {
    pub fn new(key: u32) -> Plain {
        Plain { key, sz: 1 }
    }
}

impl TreapItem for Plain {
    fn update(&mut self, left: Option<&Self>, right: Option<&Self>) {
        self.sz = left.map(|i| i.sz).unwrap_or(0) + right.map(|i| i.sz).unwrap_or(0) + 1;
    }
}

impl TreapItemSized for Plain {
    fn size(&self) -> usize {
        self.sz
    }
}
