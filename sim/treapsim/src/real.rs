//! Real-priority histories (property C16, height clause): the library's own generator decides
//! every priority; the simulator owns the history (the adversarial orders that degenerate an
//! unbalanced BST) and the interleaving of *foreign* draws on the process-wide generator.
//! One history per process (the generator cannot be reset), started by the orchestrator.

use crate::item::Plain;
use rlib_treap::{Treap, TreapNode};
use simcore::{Json, Rng};

pub const HISTORIES: &[&str] = &[
    "sorted_append",
    "front_insertion",
    "middle_insertion",
    "append_with_split_swap_rotations",
    "build_remove_every_other_refill",
    "sorted_set_insert_by_predicate_ascending",
    "sorted_set_insert_by_predicate_descending",
    "merge_many_singletons_left_to_right",
    "two_treaps_in_lock_step_then_concatenate",
    "seeded_random_mix",
    "pieces_built_from_empty_by_insert_then_concatenated",
    "pieces_built_from_singletons_then_concatenated",
    "sliding_window_and_deque_patterns",
    "build_then_random_remove_and_reinsert",
    "chunks_built_on_fresh_threads_then_concatenated",
    "built_on_a_worker_thread_then_edited_on_this_one",
];

pub const STRIDES: &[&str] = &["none", "stride", "bursts", "lock_step_second_treap"];

/// Who else draws from the shared generator between two of our node creations.
pub struct Foreign {
    pub mode: usize,
    pub stride: usize,
    rng: Rng,
    pub draws: u64,
}

impl Foreign {
    fn before_own_draw(&mut self) {
        let k = match self.mode {
            0 => 0,
            1 => self.stride - 1,
            2 => {
                if self.rng.chance(1, 8) {
                    self.rng.urange(1, self.stride.max(2))
                } else {
                    0
                }
            }
            _ => 1,
        };
        for _ in 0..k {
            // a foreign node is created and dropped through the public constructor
            let n = TreapNode::new(0u8);
            std::hint::black_box(&n);
            self.draws += 1;
        }
    }
}

pub struct Check {
    pub n: usize,
    pub height: usize,
    pub bound: f64,
    pub heap_lt: bool,
    pub heap_gt: bool,
    pub nodes: usize,
}

/// Iterative walk over the public node fields: height (in nodes), heap order on every edge,
/// node count.  No recursion in the checker: a degenerate tree must be reported, not crash it.
pub fn measure(t: &Treap<Plain>) -> Check {
    let mut height = 0usize;
    let mut nodes = 0usize;
    let (mut lt, mut gt) = (false, false);
    let mut stack: Vec<(&TreapNode<Plain>, usize)> = Vec::new();
    if let Some(r) = &t.root {
        stack.push((r, 1));
    }
    while let Some((n, d)) = stack.pop() {
        nodes += 1;
        height = height.max(d);
        for c in [&n.left, &n.right].into_iter().flatten() {
            if n.priority < c.priority {
                lt = true;
            } else if n.priority > c.priority {
                gt = true;
            }
            stack.push((c, d + 1));
        }
    }
    let bound = 5.0 * ((nodes + 1) as f64).log2() + 20.0;
    Check { n: nodes, height, bound, heap_lt: lt, heap_gt: gt, nodes }
}

/// Depth of the search path to index `pos` and of both spines, with heap order along them:
/// O(height), so it can run every few operations.  A degenerate chain grows exactly where
/// nodes are being inserted, so probing the last insertion point catches it while it is short
/// (instead of after a quadratic amount of work at the next full walk).
pub fn probe_paths(t: &Treap<Plain>, pos: usize) -> (usize, bool, bool) {
    let (mut depth_max, mut lt, mut gt) = (0usize, false, false);
    for mode in 0..3 {
        let mut cur = t.root.as_deref();
        let mut depth = 0usize;
        let mut p = pos;
        while let Some(n) = cur {
            depth += 1;
            let lsz = n.left.as_ref().map(|l| l.item.sz).unwrap_or(0);
            let next = match mode {
                0 => n.left.as_deref(),
                1 => n.right.as_deref(),
                _ => {
                    if p < lsz {
                        n.left.as_deref()
                    } else if p == lsz {
                        None
                    } else {
                        p -= lsz + 1;
                        n.right.as_deref()
                    }
                }
            };
            if let Some(c) = next {
                if n.priority < c.priority {
                    lt = true;
                } else if n.priority > c.priority {
                    gt = true;
                }
            }
            cur = next;
        }
        depth_max = depth_max.max(depth);
    }
    (depth_max, lt, gt)
}

/// Used inside worker threads: has the piece being built already left the bound (or lost its
/// heap order)?  The worker then stops early and the caller's next checkpoint reports it.
fn worker_gone_bad(t: &Treap<Plain>) -> bool {
    let size = t.size();
    if size == 0 {
        return false;
    }
    let (d, lt, gt) = probe_paths(t, size - 1);
    (lt && gt) || (d as f64) > 5.0 * ((size + 1) as f64).log2() + 20.0
}

fn in_order_keys(t: &Treap<Plain>) -> Vec<u32> {
    let mut out = Vec::new();
    let mut stack: Vec<&TreapNode<Plain>> = Vec::new();
    let mut cur = t.root.as_deref();
    while cur.is_some() || !stack.is_empty() {
        while let Some(n) = cur {
            stack.push(n);
            cur = n.left.as_deref();
        }
        let n = stack.pop().unwrap();
        out.push(n.item.key);
        cur = n.right.as_deref();
    }
    out
}

/// Iterative drop: a degenerate tree would overflow the stack in the recursive Box drop.
fn dismantle(t: Treap<Plain>) {
    let mut stack: Vec<Box<TreapNode<Plain>>> = Vec::new();
    if let Some(r) = t.root {
        stack.push(r);
    }
    while let Some(mut n) = stack.pop() {
        if let Some(l) = n.left.take() {
            stack.push(l);
        }
        if let Some(r) = n.right.take() {
            stack.push(r);
        }
    }
}

pub struct RealOut {
    pub violation: Option<(String, String)>, // (class, detail)
    pub checkpoints: Vec<(usize, usize)>,    // (n, height)
    pub final_n: usize,
    pub final_height: usize,
    pub bound: f64,
    pub foreign_draws: u64,
    pub functional_ok: bool,
    pub shape_digest: u64,
}

pub fn run_history(history: usize, n: usize, mode: usize, stride: usize, seed: u64) -> RealOut {
    let mut f = Foreign { mode, stride: stride.max(1), rng: Rng::new(seed ^ 0xF0), draws: 0 };
    let mut rng = Rng::new(seed);
    let mut t: Treap<Plain> = Treap::new();
    let mut other: Treap<Plain> = Treap::new();
    let mut checkpoints = Vec::new();
    let mut violation: Option<(String, String)> = None;
    let mut next_cp = 64usize;
    let hname = HISTORIES[history];

    // Prologue (round 17): earlier, unrelated activity of the same thread on a scratch treap that
    // is dropped before the history starts. Whatever the library keeps per thread between calls
    // (a recycled priority, a cached node, a flag) is then in the state the LAST call of the
    // prologue left it in - after a removal, after an insertion, after a split - instead of
    // always pristine. A function of the seed alone, so a replay repeats it.
    {
        let mut prng = Rng::new(seed ^ 0x9E37_79B9);
        let variant = prng.urange(0, 3);
        if variant > 0 {
            let mut scratch: Treap<Plain> = Treap::new();
            for i in 0..prng.urange(2, 6) {
                scratch.insert_at(i / 2, Plain::new(1_000_000 + i as u32));
            }
            match variant {
                1 => {
                    // last call: remove_at
                    let pos = prng.urange(0, scratch.size() - 1);
                    std::hint::black_box(scratch.remove_at(pos));
                }
                2 => {
                    // remove_at, then insert_at as the last call
                    let pos = prng.urange(0, scratch.size() - 1);
                    let it = scratch.remove_at(pos);
                    scratch.insert_at(0, it);
                }
                _ => {
                    // from_item + merge, a split, then remove_at(0) as the last call
                    let single = Treap::from_item(Plain::new(2_000_000));
                    scratch = Treap::merge(scratch, single);
                    let (a, b) = scratch.split_at(1);
                    scratch = Treap::merge(b, a);
                    std::hint::black_box(scratch.remove_at(0));
                }
            }
            drop(scratch);
        }
    }

    // expected in-order key sequence is tracked only in closed form (see `expect`)
    let mut inserted = 0usize;
    let mut key_sum: u64 = 0;
    let mut key_count: usize = 0;

    let mut ops_since_probe = 0usize;
    let mut last_pos = 0usize;
    // operation log on the main treap (0 = insert(pos, key), 1 = remove(pos) -> key, 2 = rotate(k)),
    // replayed on a plain vector afterwards when the history is small enough: the functional
    // cross-check is then exact for every history, not only for those with a closed form
    let mut oplog: Vec<(u8, u32, u32)> = Vec::new();
    let log_ops = n <= 30_000;
    macro_rules! checkpoint {
        ($tree:expr, $force:expr) => {{
            let size = $tree.size();
            ops_since_probe += 1;
            if violation.is_none() && ops_since_probe >= 64 && size > 0 {
                ops_since_probe = 0;
                let (d, lt, gt) = probe_paths(&$tree, last_pos.min(size - 1));
                let bound = 5.0 * ((size + 1) as f64).log2() + 20.0;
                if lt && gt {
                    violation = Some((format!("treap/heap/{}/", hname), format!("history {} at n={}: parent-child priorities are ordered in both directions along a search path", hname, size)));
                } else if (d as f64) > bound {
                    violation = Some((
                        format!("treap/height/{}/", hname),
                        format!("history {} (foreign draws: {} stride {}) at n={}: a search path has depth {}, more than 5*log2(n+1)+20 = {:.1}", hname, STRIDES[mode], stride, size, d, bound),
                    ));
                }
            }
            if violation.is_none() && ($force || size >= next_cp) {
                while next_cp <= size {
                    next_cp *= 2;
                }
                let c = measure(&$tree);
                checkpoints.push((c.n, c.height));
                if c.heap_lt && c.heap_gt {
                    violation = Some((format!("treap/heap/{}/", hname), format!("history {} at n={}: parent-child priorities are ordered in both directions", hname, c.n)));
                } else if (c.height as f64) > c.bound {
                    violation = Some((
                        format!("treap/height/{}/", hname),
                        format!("history {} (foreign draws: {} stride {}) at n={}: height {} exceeds 5*log2(n+1)+20 = {:.1}", hname, STRIDES[mode], stride, c.n, c.height, c.bound),
                    ));
                } else if c.n != size {
                    violation = Some((format!("treap/size/{}/", hname), format!("history {}: size() = {} but {} nodes are reachable", hname, size, c.n)));
                }
            }
        }};
    }

    let ins = |t: &mut Treap<Plain>, pos: usize, key: u32, f: &mut Foreign| {
        f.before_own_draw();
        t.insert_at(pos, Plain::new(key));
    };

    match history {
        0 => {
            for i in 0..n {
                let len = t.size();
                { last_pos = len; if log_ops { oplog.push((0, last_pos as u32, i as u32)); } ins(&mut t, last_pos, i as u32, &mut f); }
                inserted += 1;
                checkpoint!(t, false);
                if violation.is_some() {
                    break;
                }
            }
        }
        1 => {
            for i in 0..n {
                { last_pos = 0; if log_ops { oplog.push((0, last_pos as u32, i as u32)); } ins(&mut t, last_pos, i as u32, &mut f); }
                inserted += 1;
                checkpoint!(t, false);
                if violation.is_some() {
                    break;
                }
            }
        }
        2 => {
            for i in 0..n {
                let len = t.size();
                { last_pos = len / 2; if log_ops { oplog.push((0, last_pos as u32, i as u32)); } ins(&mut t, last_pos, i as u32, &mut f); }
                inserted += 1;
                checkpoint!(t, false);
                if violation.is_some() {
                    break;
                }
            }
        }
        3 => {
            for i in 0..n {
                let len = t.size();
                { last_pos = len; if log_ops { oplog.push((0, last_pos as u32, i as u32)); } ins(&mut t, last_pos, i as u32, &mut f); }
                inserted += 1;
                if i % 7 == 6 {
                    let k = rng.usize_below(t.size() + 1);
                    if log_ops {
                        oplog.push((2, k as u32, 0));
                    }
                    let (l, r) = std::mem::replace(&mut t, Treap::new()).split_at(k);
                    t = Treap::merge(r, l);
                }
                checkpoint!(t, false);
                if violation.is_some() {
                    break;
                }
            }
        }
        4 => {
            for i in 0..n {
                let len = t.size();
                { last_pos = len; if log_ops { oplog.push((0, last_pos as u32, i as u32)); } ins(&mut t, last_pos, i as u32, &mut f); }
                inserted += 1;
                checkpoint!(t, false);
                if violation.is_some() {
                    break;
                }
            }
            checkpoint!(t, true);
            // remove every other element, from the back so positions stay valid
            let mut pos = t.size();
            while pos >= 2 && violation.is_none() {
                pos -= 2;
                let removed = t.remove_at(pos);
                if log_ops {
                    oplog.push((1, pos as u32, removed.key));
                }
                inserted -= 1;
            }
            checkpoint!(t, true);
            let refill = if violation.is_some() { 0 } else { n / 2 };
            for i in 0..refill {
                let len = t.size();
                { last_pos = if i % 2 == 0 { len } else { 0 }; if log_ops { oplog.push((0, last_pos as u32, (n + i) as u32)); } ins(&mut t, last_pos, (n + i) as u32, &mut f); }
                inserted += 1;
                checkpoint!(t, false);
                if violation.is_some() {
                    break;
                }
            }
        }
        5 | 6 => {
            for i in 0..n {
                let key = if history == 5 { i as u32 } else { (n - 1 - i) as u32 };
                last_pos = if history == 5 { t.size() } else { 0 };
                let (l, r) = std::mem::replace(&mut t, Treap::new()).split_by(|it| it.key < key);
                f.before_own_draw();
                t = Treap::merge(l, Treap::merge(Treap::from_item(Plain::new(key)), r));
                inserted += 1;
                checkpoint!(t, false);
                if violation.is_some() {
                    break;
                }
            }
        }
        7 => {
            for i in 0..n {
                last_pos = t.size();
                f.before_own_draw();
                let single = Treap::from_item(Plain::new(i as u32));
                t = Treap::merge(std::mem::replace(&mut t, Treap::new()), single);
                inserted += 1;
                checkpoint!(t, false);
                if violation.is_some() {
                    break;
                }
            }
        }
        8 => {
            for i in 0..n / 2 {
                let len = t.size();
                { last_pos = len; if log_ops { oplog.push((0, last_pos as u32, i as u32)); } ins(&mut t, last_pos, i as u32, &mut f); }
                let len2 = other.size();
                { last_pos = len2; ins(&mut other, last_pos, (n / 2 + i) as u32, &mut f); }
                inserted += 2;
                checkpoint!(t, false);
                if violation.is_some() {
                    break;
                }
            }
            checkpoint!(other, true);
            t = Treap::merge(std::mem::replace(&mut t, Treap::new()), std::mem::replace(&mut other, Treap::new()));
        }
        10 | 11 => {
            // many small treaps, each built separately from an EMPTY treap, concatenated left to
            // right: anything that ties a treap's priorities to "how it was started" (a generator
            // restarted per treap, per-treap seeds) shows up as a periodic priority sequence here
            let piece = [8usize, 50, 64, 200][(seed % 4) as usize];
            let mut key = 0u32;
            while (key as usize) < n && violation.is_none() {
                let mut p: Treap<Plain> = Treap::new();
                for _ in 0..piece.min(n - key as usize) {
                    if history == 10 {
                        let len = p.size();
                        f.before_own_draw();
                        p.insert_at(len, Plain::new(key));
                    } else {
                        f.before_own_draw();
                        let single = Treap::from_item(Plain::new(key));
                        p = Treap::merge(std::mem::replace(&mut p, Treap::new()), single);
                    }
                    key += 1;
                    inserted += 1;
                }
                last_pos = t.size();
                t = Treap::merge(std::mem::replace(&mut t, Treap::new()), p);
                checkpoint!(t, false);
            }
        }
        14 => {
            // nodes are Send: pieces built on OTHER threads (one after the other, no concurrency)
            // and handed over are as legitimate an operation history as any; whatever ties a
            // node's priority to the thread that created it shows up here
            let chunk = [8usize, 50, 200, 2000][(seed % 4) as usize].min(n.max(1));
            // how the workers are named (a pool usually gives all its threads one name, or a
            // numbered one) and whether this thread has a long history of draws behind it before
            // the first worker starts (anything keyed on "draws so far" or on the thread's name)
            let naming = (seed / 4) % 3;
            let pre_draws: u64 = [0, 0, (1 << 16) + 3, (1 << 20) + 5][((seed / 12) % 4) as usize];
            for _ in 0..pre_draws {
                let node = TreapNode::new(0u8);
                std::hint::black_box(&node);
            }
            f.draws += pre_draws;
            let mut key = 0u32;
            let mut chunk_no = 0usize;
            while (key as usize) < n && violation.is_none() {
                let len = chunk.min(n - key as usize);
                let start = key;
                chunk_no += 1;
                if pre_draws > 0 && chunk_no % 4 == 0 {
                    // every fourth piece is built by this thread itself
                    let mut p: Treap<Plain> = Treap::new();
                    for j in 0..len {
                        let at = p.size();
                        p.insert_at(at, Plain::new(start + j as u32));
                    }
                    key += len as u32;
                    inserted += p.size();
                    last_pos = t.size();
                    t = Treap::merge(std::mem::replace(&mut t, Treap::new()), p);
                    checkpoint!(t, false);
                    continue;
                }
                let (mode_c, stride_c, fseed) = (f.mode, f.stride, seed ^ key as u64);
                let builder = match naming {
                    0 => std::thread::Builder::new(),
                    1 => std::thread::Builder::new().name("worker".to_string()),
                    _ => std::thread::Builder::new().name(format!("worker-{}", chunk_no)),
                };
                let (piece, draws) = builder
                    .stack_size(64 << 20)
                    .spawn(move || {
                        let mut g = Foreign { mode: mode_c, stride: stride_c, rng: Rng::new(fseed), draws: 0 };
                        let mut p: Treap<Plain> = Treap::new();
                        for j in 0..len {
                            g.before_own_draw();
                            let at = p.size();
                            p.insert_at(at, Plain::new(start + j as u32));
                            if j % 64 == 63 && worker_gone_bad(&p) {
                                break;
                            }
                        }
                        (p, g.draws)
                    })
                    .expect("spawn")
                    .join()
                    .expect("worker");
                f.draws += draws;
                key += len as u32;
                inserted += piece.size();
                if piece.size() < len {
                    // the worker stopped early: report on the piece itself
                    t = piece;
                    checkpoint!(t, true);
                    break;
                }
                last_pos = t.size();
                t = Treap::merge(std::mem::replace(&mut t, Treap::new()), piece);
                checkpoint!(t, false);
            }
        }
        15 => {
            // built on a worker thread, then edited here (a thread whose generator is fresh)
            let m = (n * 9 / 10).max(8);
            let (mode_c, stride_c) = (f.mode, f.stride);
            let (built, draws) = std::thread::Builder::new()
                .stack_size(1 << 30)
                .spawn(move || {
                    let mut g = Foreign { mode: mode_c, stride: stride_c, rng: Rng::new(seed ^ 0xAB), draws: 0 };
                    let mut p: Treap<Plain> = Treap::new();
                    for j in 0..m {
                        g.before_own_draw();
                        let at = p.size();
                        p.insert_at(at, Plain::new(j as u32));
                        if j % 64 == 63 && worker_gone_bad(&p) {
                            break;
                        }
                    }
                    (p, g.draws)
                })
                .expect("spawn")
                .join()
                .expect("worker");
            f.draws += draws;
            t = built;
            inserted += t.size();
            checkpoint!(t, true);
            for i in 0..(n - m.min(n)) {
                if violation.is_some() {
                    break;
                }
                let k = match i % 3 {
                    0 => 0,
                    1 => t.size(),
                    _ => rng.usize_below(t.size() + 1),
                };
                { last_pos = k; if log_ops { oplog.push((0, last_pos as u32, (m + i) as u32)); } ins(&mut t, last_pos, (m + i) as u32, &mut f); }
                inserted += 1;
                checkpoint!(t, false);
            }
        }
        12 => {
            // sliding window / deque patterns (by seed): 0 push back + pop front, 1 push front + pop
            // back, 2 alternate the two, 3 push back + pop front with a pop-back / push-back churn
            // at the tail in between (anything that ties a priority to "the newest node" or to
            // the end of the sequence shows here)
            let variant = seed % 4;
            let w = if (seed / 4) % 2 == 0 { (n / 4).max(8) } else { 300.min(n.max(8)) };
            for i in 0..n {
                let front = variant == 1 || (variant == 2 && i % 2 == 1);
                { last_pos = if front { 0 } else { t.size() }; if log_ops { oplog.push((0, last_pos as u32, i as u32)); } ins(&mut t, last_pos, i as u32, &mut f); }
                inserted += 1;
                if variant == 3 && i % 3 == 2 && t.size() > 1 {
                    let at = t.size() - 1;
                    let removed = t.remove_at(at);
                    if log_ops {
                        oplog.push((1, at as u32, removed.key));
                    }
                    { last_pos = t.size(); if log_ops { oplog.push((0, last_pos as u32, removed.key)); } ins(&mut t, last_pos, removed.key, &mut f); }
                }
                if t.size() > w {
                    let at = if front { t.size() - 1 } else { 0 };
                    let removed = t.remove_at(at);
                    if log_ops {
                        oplog.push((1, at as u32, removed.key));
                    }
                    inserted -= 1;
                }
                checkpoint!(t, false);
                if violation.is_some() {
                    break;
                }
            }
        }
        13 => {
            let m = (n / 2).max(8);
            for i in 0..m {
                let k = rng.usize_below(t.size() + 1);
                { last_pos = k; if log_ops { oplog.push((0, last_pos as u32, i as u32)); } ins(&mut t, last_pos, i as u32, &mut f); }
                inserted += 1;
                checkpoint!(t, false);
                if violation.is_some() {
                    break;
                }
            }
            for i in 0..m {
                if violation.is_some() {
                    break;
                }
                let k = rng.usize_below(t.size());
                let removed = t.remove_at(k);
                if log_ops {
                    oplog.push((1, k as u32, removed.key));
                }
                let k2 = rng.usize_below(t.size() + 1);
                { last_pos = k2; if log_ops { oplog.push((0, last_pos as u32, (m + i) as u32)); } ins(&mut t, last_pos, (m + i) as u32, &mut f); }
                checkpoint!(t, false);
            }
        }
        _ => {
            for i in 0..n {
                let len = t.size();
                match rng.below(10) {
                    0 if len > 2 => {
                        let k = rng.usize_below(len);
                        let removed = t.remove_at(k);
                        if log_ops {
                            oplog.push((1, k as u32, removed.key));
                        }
                        inserted -= 1;
                    }
                    1 => {
                        let k = rng.usize_below(len + 1);
                        if log_ops {
                            oplog.push((2, k as u32, 0));
                        }
                        let (l, r) = std::mem::replace(&mut t, Treap::new()).split_at(k);
                        t = Treap::merge(r, l);
                    }
                    2 | 3 => {
                        { last_pos = len; if log_ops { oplog.push((0, last_pos as u32, i as u32)); } ins(&mut t, last_pos, i as u32, &mut f); }
                        inserted += 1;
                    }
                    4 => {
                        { last_pos = 0; if log_ops { oplog.push((0, last_pos as u32, i as u32)); } ins(&mut t, last_pos, i as u32, &mut f); }
                        inserted += 1;
                    }
                    _ => {
                        let k = rng.usize_below(len + 1);
                        { last_pos = k; if log_ops { oplog.push((0, last_pos as u32, i as u32)); } ins(&mut t, last_pos, i as u32, &mut f); }
                        inserted += 1;
                    }
                }
                checkpoint!(t, false);
                if violation.is_some() {
                    break;
                }
            }
        }
    }
    checkpoint!(t, true);

    // cheap functional cross-check so that a "balanced but wrong" tree cannot pass
    let mut functional_ok = true;
    if violation.is_none() {
        let keys = in_order_keys(&t);
        for k in &keys {
            key_sum += *k as u64;
            key_count += 1;
        }
        let _ = key_sum;
        functional_ok = key_count == inserted && t.size() == inserted;
        // exact replay of the logged operations on a vector (histories made of insert_at /
        // remove_at / rotations on the main treap only)
        if log_ops && matches!(history, 0 | 1 | 2 | 3 | 4 | 9 | 12 | 13) {
            let mut model: Vec<u32> = Vec::new();
            let mut removed_ok = true;
            for (kind, a, b) in &oplog {
                match kind {
                    0 => model.insert((*a as usize).min(model.len()), *b),
                    1 => {
                        if (*a as usize) < model.len() {
                            removed_ok &= model.remove(*a as usize) == *b;
                        } else {
                            removed_ok = false;
                        }
                    }
                    _ => {
                        let k = (*a as usize).min(model.len());
                        model.rotate_left(k);
                    }
                }
            }
            functional_ok &= removed_ok && model == keys;
        }
        let exact: Option<Vec<u32>> = match history {
            // middle insertion has a closed form too: odd keys ascending, then even keys descending
            2 => {
                let m = keys.len() as u32;
                Some((0..m).filter(|k| k % 2 == 1).chain((0..m).rev().filter(|k| k % 2 == 0)).collect())
            }
            0 | 5 | 6 | 7 | 8 | 10 | 11 | 14 => Some((0..keys.len() as u32).collect()),
            1 => Some((0..keys.len() as u32).rev().collect()),
            _ => None,
        };
        if let Some(e) = exact {
            functional_ok &= e == keys;
        }
        functional_ok &= t.first().map(|i| i.key) == keys.first().copied() && t.last().map(|i| i.key) == keys.last().copied();
        if !functional_ok {
            violation = Some((format!("treap/functional/{}/", hname), format!("history {}: the final sequence has {} elements ({} expected) or the wrong order", hname, key_count, inserted)));
        }
    }
    let c = measure(&t);
    let mut d = simcore::Digest::new();
    d.word(c.n as u64);
    d.word(c.height as u64);
    if let Some(r) = &t.root {
        d.word(r.priority as u64);
        d.word(r.left.as_ref().map(|l| l.item.sz).unwrap_or(0) as u64);
    }
    let out = RealOut { violation, checkpoints, final_n: c.n, final_height: c.height, bound: c.bound, foreign_draws: f.draws, functional_ok, shape_digest: d.finish() };
    dismantle(t);
    dismantle(other);
    out
}

pub fn to_json(history: usize, n: usize, mode: usize, stride: usize, seed: u64, o: &RealOut) -> Json {
    Json::obj()
        .with("engine", Json::s("treapsim-real"))
        .with("history", Json::s(HISTORIES[history]))
        .with("history_index", Json::u(history))
        .with("n", Json::u(n))
        .with("foreign_mode", Json::s(STRIDES[mode]))
        .with("foreign_mode_index", Json::u(mode))
        .with("stride", Json::u(stride))
        .with("seed", Json::n(seed as i128))
        .with("final_n", Json::u(o.final_n))
        .with("final_height", Json::u(o.final_height))
        .with("bound", Json::Float(o.bound))
        .with("foreign_draws", Json::n(o.foreign_draws as i128))
        .with("functional_ok", Json::Bool(o.functional_ok))
        .with("shape_digest", Json::s(&format!("{:016x}", o.shape_digest)))
        .with("checkpoints", Json::Arr(o.checkpoints.iter().map(|(n, h)| Json::Arr(vec![Json::u(*n), Json::u(*h)])).collect()))
        .with("violation", match &o.violation {
            Some((c, d)) => Json::obj().with("class", Json::s(c)).with("detail", Json::s(d)),
            None => Json::Null,
        })
}
