//! Seeded generation for the controlled-priority runs: priority strategies (the randomness
//! seam) and operation histories drawn against the current model state.

use crate::item::P;
use crate::sim::*;
use simcore::Rng;

#[derive(Clone, Copy, PartialEq, Eq, Debug)]
pub enum Strategy {
    Uniform,
    Tiny4,
    Tiny2,
    AllEqual,
    Increasing,
    Decreasing,
    IncreasingWithReversals,
    Zigzag,
    Extremes,
}

pub const STRATEGIES: [Strategy; 9] = [
    Strategy::Uniform,
    Strategy::Tiny4,
    Strategy::Tiny2,
    Strategy::AllEqual,
    Strategy::Increasing,
    Strategy::Decreasing,
    Strategy::IncreasingWithReversals,
    Strategy::Zigzag,
    Strategy::Extremes,
];

impl Strategy {
    pub fn name(self) -> &'static str {
        match self {
            Strategy::Uniform => "uniform_u32",
            Strategy::Tiny4 => "range_0_4_ties",
            Strategy::Tiny2 => "range_0_2_ties",
            Strategy::AllEqual => "all_equal",
            Strategy::Increasing => "increasing_right_spine",
            Strategy::Decreasing => "decreasing_new_node_becomes_root",
            Strategy::IncreasingWithReversals => "increasing_with_reversals",
            Strategy::Zigzag => "zigzag_high_low",
            Strategy::Extremes => "only_0_and_u32_max",
        }
    }
}

pub fn gen_priorities(rng: &mut Rng, strat: Strategy, n: usize) -> Vec<u32> {
    let mut v = Vec::with_capacity(n);
    let base = rng.below(1 << 20) as u32;
    for i in 0..n {
        let i32_ = i as u32;
        v.push(match strat {
            Strategy::Uniform => rng.next_u64() as u32,
            Strategy::Tiny4 => rng.below(4) as u32,
            Strategy::Tiny2 => rng.below(2) as u32,
            Strategy::AllEqual => base,
            Strategy::Increasing => base + i32_,
            Strategy::Decreasing => u32::MAX - base - i32_,
            Strategy::IncreasingWithReversals => {
                if rng.chance(1, 5) {
                    base.saturating_sub(rng.below(50) as u32) + i32_ / 2
                } else {
                    base + i32_
                }
            }
            Strategy::Zigzag => {
                if i % 2 == 0 {
                    base + i32_
                } else {
                    u32::MAX - base - i32_
                }
            }
            Strategy::Extremes => {
                if rng.chance(1, 2) {
                    0
                } else {
                    u32::MAX
                }
            }
        });
    }
    v
}

#[derive(Clone, Copy, PartialEq, Eq, Debug)]
pub enum Flavour {
    /// arbitrary values, arbitrary affine modifications
    General,
    /// sequences kept sorted: threshold predicates for split_by, add-to-suffix / assign-between
    Sorted,
    /// one treap, range operations only after a build-up: deep lazy stacks
    LazyHeavy,
    /// one treap grown to 80..300 elements (with spine priorities: depth = size) before a
    /// short lazy-heavy history: depth and size far beyond what short histories reach
    Deep,
}

pub struct Cfg {
    pub flavour: Flavour,
    pub ops: usize,
    pub build_up: usize,
    pub weights: [u32; 13],
    pub slots: usize,
    pub manual_prio: Strategy,
    pub max_len: usize,
}

pub fn gen_cfg(rng: &mut Rng) -> Cfg {
    let flavour = match rng.below(100) {
        0..=48 => Flavour::General,
        49..=77 => Flavour::Sorted,
        78..=97 => Flavour::LazyHeavy,
        _ => Flavour::Deep,
    };
    if flavour == Flavour::Deep {
        // up to 300 elements: crosses the 2^8 thresholds (sizes, depths) as well
        let build_up = if rng.chance(1, 3) { rng.urange(257, 300) } else { rng.urange(80, 220) };
        return Cfg {
            flavour,
            ops: build_up + rng.urange(8, 25),
            build_up,
            weights: [0, 3, 1, 2, 6, 3, 0, 12, 5, 3, 3, 1, 1],
            slots: 1,
            manual_prio: *rng.pick(&STRATEGIES),
            max_len: 320,
        };
    }
    // op order: from_item, insert_at, manual_insert, remove_at, split_at, split_by, merge,
    //           range_modify, range_agg, first, last, size, collect
    let weights = match (flavour, rng.below(3)) {
        (Flavour::LazyHeavy, _) => [0, 3, 1, 1, 6, 3, 0, 14, 5, 3, 3, 1, 0],
        (_, 0) => [2, 8, 2, 3, 6, 5, 3, 8, 4, 2, 2, 1, 1],
        (_, 1) => [1, 4, 1, 2, 10, 8, 5, 10, 5, 3, 3, 1, 0],
        _ => [3, 6, 3, 5, 5, 5, 6, 5, 3, 2, 2, 2, 1],
    };
    Cfg {
        flavour,
        ops: match rng.below(4) {
            0 => rng.urange(3, 12),
            _ => rng.urange(12, 60),
        },
        build_up: rng.urange(0, 14),
        weights,
        slots: if flavour == Flavour::LazyHeavy { 1 } else { rng.urange(1, POOL) },
        manual_prio: *rng.pick(&STRATEGIES),
        max_len: MAX_LEN,
    }
}

fn value_for(rng: &mut Rng, cfg: &Cfg, m: &[(u32, u64)], pos: usize) -> u64 {
    match cfg.flavour {
        Flavour::Sorted => {
            // between the neighbours, so the sequence stays sorted
            let lo = if pos > 0 { m[pos - 1].1 } else { 0 };
            let hi = if pos < m.len() { m[pos].1 } else { lo + 1000 };
            lo + rng.below(hi.saturating_sub(lo) + 1)
        }
        _ => match rng.below(5) {
            0 => rng.below(10),
            1 => P - 1 - rng.below(3),
            _ => rng.below(1_000_000),
        },
    }
}

/// Next operation of a generated history.  Pure function of (rng state, model state).
pub fn next_op(rng: &mut Rng, cfg: &Cfg, model: &[Vec<(u32, u64)>], step: usize) -> Option<Op> {
    if step >= cfg.ops {
        return None;
    }
    let slot = rng.usize_below(cfg.slots);
    let m = &model[slot];
    if step < cfg.build_up {
        let pos = if cfg.flavour == Flavour::Deep {
            match rng.below(10) {
                0..=5 => m.len(),
                6 | 7 => 0,
                _ => rng.usize_below(m.len() + 1),
            }
        } else {
            rng.usize_below(m.len() + 1)
        };
        return Some(Op::InsertAt { slot, pos, value: value_for(rng, cfg, m, pos) });
    }
    let kind = rng.weighted(&cfg.weights);
    let len = m.len();
    let pos_any = |rng: &mut Rng| match rng.below(6) {
        0 => 0,
        1 => len,
        _ => rng.usize_below(len + 1),
    };
    Some(match kind {
        0 => {
            let v = if cfg.flavour == Flavour::Sorted { m.last().map(|e| e.1).unwrap_or(0) + rng.below(50) } else { value_for(rng, cfg, m, len) };
            Op::FromItem { slot, value: v }
        }
        1 => {
            let pos = pos_any(rng);
            if cfg.flavour != Flavour::Sorted && rng.chance(1, 5) {
                // an item that already carries a pending modification (fresh, or the one remove_at
                // just returned): assign (a = 0) or add (a = 1) or a general affine map
                let (a, b) = match rng.below(3) {
                    0 => (0, rng.below(1000)),
                    1 => (1, 1 + rng.below(50)),
                    _ => (2 + rng.below(3), rng.below(7)),
                };
                let from = if len > 0 && rng.chance(1, 2) { Some(rng.usize_below(len)) } else { None };
                Op::TaggedInsert { slot, from, dst: if rng.chance(2, 3) { slot } else { rng.usize_below(cfg.slots) }, dst_pos: pos, how: rng.below(3) as u8, value: rng.below(1000), a, b }
            } else {
                Op::InsertAt { slot, pos, value: value_for(rng, cfg, m, pos) }
            }
        }
        2 => {
            let pos = pos_any(rng);
            let pr = gen_priorities(rng, cfg.manual_prio, 4)[rng.usize_below(4)];
            Op::ManualInsert { slot, pos, value: value_for(rng, cfg, m, pos), priority: pr }
        }
        3 => {
            let pos = rng.usize_below(len.max(1));
            if rng.chance(1, 3) {
                // the removed item is put back as remove_at returned it (same place in the sorted
                // flavour, so that threshold predicates stay monotone)
                if cfg.flavour == Flavour::Sorted {
                    Op::MoveItem { slot, pos, dst: slot, dst_pos: pos, how: 0 }
                } else {
                    Op::MoveItem { slot, pos, dst: if rng.chance(2, 3) { slot } else { rng.usize_below(cfg.slots) }, dst_pos: rng.usize_below(len + 1), how: rng.below(3) as u8 }
                }
            } else {
                Op::RemoveAt { slot, pos }
            }
        }
        4 => {
            let dst = if rng.chance(1, 2) { slot } else { rng.usize_below(cfg.slots) };
            // moving a tail in front of another sorted sequence rarely keeps it sorted; in the
            // sorted flavour only rotate in place when it is a no-op split (pos 0 / len)
            let pos = pos_any(rng);
            let dst = if cfg.flavour == Flavour::Sorted && pos != 0 && pos != len { (slot + 1) % POOL } else { dst };
            Op::SplitMove { src: slot, pos, dst, node_api: rng.chance(1, 4) }
        }
        5 => {
            let pos = pos_any(rng);
            let dst = if cfg.flavour == Flavour::Sorted { (slot + 1) % POOL } else if rng.chance(1, 2) { slot } else { rng.usize_below(cfg.slots) };
            Op::SplitByMove { src: slot, pos, dst, threshold: cfg.flavour == Flavour::Sorted || rng.chance(1, 3), node_api: rng.chance(1, 4) }
        }
        6 => Op::Merge { a: slot, b: rng.usize_below(POOL), node_api: rng.chance(1, 4) },
        7 => {
            let (l, r) = (rng.usize_below(len.max(1)), rng.usize_below(len.max(1)));
            let (l, r) = if rng.chance(1, 8) { (0, len.saturating_sub(1)) } else { (l, r) };
            match cfg.flavour {
                Flavour::Sorted if len > 0 => {
                    if rng.chance(1, 2) {
                        // add to a suffix keeps the order
                        Op::RangeModify { slot, l: l.min(r), r: len - 1, a: 1, b: rng.below(100) }
                    } else {
                        // assign a value that lies between the neighbours of the range
                        let (lo, hi) = (l.min(r), l.max(r));
                        let below = if lo > 0 { m[lo - 1].1 } else { 0 };
                        let above = if hi + 1 < len { m[hi + 1].1 } else { below + 1000 };
                        Op::RangeModify { slot, l: lo, r: hi, a: 0, b: below + rng.below(above.saturating_sub(below) + 1) }
                    }
                }
                _ => {
                    let (a, b) = match rng.below(6) {
                        0 | 1 => (0, rng.below(1000)),           // assign
                        2 | 3 => (1, 1 + rng.below(1000)),       // add
                        4 => (2 + rng.below(5), rng.below(1000)), // general affine
                        _ => (rng.below(P), rng.below(P)),
                    };
                    Op::RangeModify { slot, l, r, a, b }
                }
            }
        }
        8 => Op::RangeAgg { slot, l: rng.usize_below(len.max(1)), r: rng.usize_below(len.max(1)) },
        9 => Op::First { slot },
        10 => Op::Last { slot },
        11 => {
            if rng.chance(1, 2) {
                Op::Size { slot }
            } else {
                Op::NodePoke { slot, path: rng.below(256) as u32, depth: rng.below(5) as u8, what: rng.below(3) as u8 }
            }
        }
        _ => Op::Collect { slot },
    })
}
