//! treapsim — deterministic simulation of rlib_treap.
//!
//!   treapsim ctl --runs N [--seed S] --out F --replay-dir D     controlled-priority histories
//!                                                                (C03; heap-order clause of C16)
//!   treapsim real --history H --n N --mode M --stride K --seed S  one real-priority history in
//!                                                                this process (C16 height clause)
//!   treapsim replay FILE        exit 1 iff the recorded run still violates
//!   treapsim digest --runs N    per-run digests (determinism self-test)
//!   treapsim hookcheck          is the priority hook of /repo effective?

mod gen;
mod item;
mod real;
mod sim;

use gen::*;
use sim::*;
use simcore::par::{par_for, workers_from_env};
use simcore::{run_seed, Digest, Json, Rng};
use std::collections::{BTreeMap, HashSet};

const SALT: u64 = 0xC03;

fn arg(args: &[String], name: &str) -> Option<String> {
    args.iter().position(|a| a == name).and_then(|i| args.get(i + 1)).cloned()
}

struct Acc {
    runs: u64,
    steps: u64,
    walks: u64,
    probes: Vec<u64>,
    by_strategy: Vec<u64>,
    by_flavour: [u64; 4],
    states: HashSet<u64>,
    states_capped: bool,
    shapes: HashSet<(usize, u32)>,
    max_height: usize,
    /// class -> (run index, record, violation, Some(block start) if the run only violates after
    /// the earlier runs of its block on the same thread - hidden thread-local state in the library)
    violations: BTreeMap<String, (u64, Record, Violation, Option<u64>)>,
    violating_runs: u64,
    samples: Vec<Json>,
}

const STATE_CAP: usize = 3_000_000;

impl Acc {
    fn new() -> Acc {
        Acc {
            runs: 0,
            steps: 0,
            walks: 0,
            probes: vec![0; PROBES.len()],
            by_strategy: vec![0; STRATEGIES.len()],
            by_flavour: [0; 4],
            states: HashSet::new(),
            states_capped: false,
            shapes: HashSet::new(),
            max_height: 0,
            violations: BTreeMap::new(),
            violating_runs: 0,
            samples: Vec::new(),
        }
    }
}

/// Builds and executes run `idx`: everything derives from the run's seed.
/// Runs `f` on a thread of its own.  Every run (and every minimisation candidate and replay)
/// gets a FRESH thread, so that thread-local state inside the library under test (generators,
/// caches, "smallest priority seen so far" records ...) cannot leak from one run into the next:
/// a run stays a self-contained value and replays exactly in a fresh process.
fn on_fresh_thread<T: Send>(f: impl FnOnce() -> T + Send) -> T {
    std::thread::scope(|s| {
        std::thread::Builder::new()
            .stack_size(64 << 20)
            .spawn_scoped(s, move || {
                install_hook();
                f()
            })
            .expect("spawn run thread")
            .join()
            .expect("run thread panicked (harness bug)")
    })
}

/// Builds and executes run `idx` on the CURRENT thread: everything derives from the run's seed.
fn run_inner(master: u64, idx: u64, collect_states: bool) -> (Record, ExecOut, usize, Flavour) {
    let mut rng = Rng::new(run_seed(master ^ SALT, idx));
    let strat_i = rng.usize_below(STRATEGIES.len());
    let cfg = gen_cfg(&mut rng);
    let priorities = gen_priorities(&mut rng, STRATEGIES[strat_i], cfg.ops + 8);
    let (out, ops) = exec_source(&priorities, cfg.max_len, &mut |model, step| next_op(&mut rng, &cfg, model, step), collect_states);
    (Record { priorities, ops, max_len: cfg.max_len }, out, strat_i, cfg.flavour)
}

/// One run on a thread of its own (digest self-test, by-index replay).
fn one_run(master: u64, idx: u64, collect_states: bool) -> (Record, ExecOut, usize, Flavour) {
    on_fresh_thread(move || run_inner(master, idx, collect_states))
}

/// Runs of one block share a thread (a fresh one per block; spawning a thread per run costs two
/// orders of magnitude more than a run).  Returns the results in index order.
const RUN_BLOCK: u64 = 64;

fn run_block(master: u64, from: u64, to: u64, collect_states: bool) -> Vec<(u64, Record, ExecOut, usize, Flavour)> {
    on_fresh_thread(move || {
        (from..to)
            .map(|idx| {
                let (r, o, s, f) = run_inner(master, idx, collect_states);
                (idx, r, o, s, f)
            })
            .collect()
    })
}

/// `exec` on a fresh thread (minimisation candidates, final confirmation, replay).
fn exec_fresh(rec: &Record) -> ExecOut {
    let rec = rec.clone();
    on_fresh_thread(move || exec(&rec, false))
}

fn ctl(master: u64, runs: u64, replay_dir: &str) -> Json {
    let hook = hook_active();
    // without the hook only ManualInsert priorities are controlled and the library draws from its
    // process-wide generator: that must not happen on several threads at once
    let workers = if hook { workers_from_env() } else { 1 };
    let t0 = std::time::Instant::now();
    let n_blocks = (runs + RUN_BLOCK - 1) / RUN_BLOCK;
    let accs = par_for(
        n_blocks,
        workers,
        |_| Acc::new(),
        move |acc, block, cutoff| {
            let collect = !acc.states_capped;
            let (from, to) = (block * RUN_BLOCK, ((block + 1) * RUN_BLOCK).min(runs));
            for (idx, rec, out, strat_i, flavour) in run_block(master, from, to, collect) {
                acc.runs += 1;
                acc.steps += out.stats.steps;
                acc.walks += out.stats.walks;
                acc.by_strategy[strat_i] += 1;
                acc.by_flavour[flavour as usize] += 1;
                for (a, b) in acc.probes.iter_mut().zip(out.stats.probes.iter()) {
                    *a += *b;
                }
                acc.max_height = acc.max_height.max(out.stats.max_height);
                if collect {
                    acc.states.extend(out.stats.state_digests.iter().copied());
                    acc.shapes.extend(out.stats.shapes.iter().copied());
                    if acc.states.len() > STATE_CAP {
                        acc.states_capped = true;
                    }
                }
                if acc.samples.len() < 2 && idx % 13 == 4 && rec.ops.len() <= 10 {
                    acc.samples.push(Json::obj().with("run_index", Json::n(idx as i128)).with("priority_strategy", Json::s(STRATEGIES[strat_i].name())).with("record", rec.to_json()));
                }
                if let Some(v) = out.violation {
                    acc.violating_runs += 1;
                    cutoff.lower_to(block + 64);
                    let class = v.class();
                    let better = match acc.violations.get(&class) {
                        Some((i, _, _, _)) => *i > idx,
                        None => true,
                    };
                    if better {
                        // does the run violate on its own (fresh thread), or only in the context
                        // of the runs that shared its thread?
                        let solo = exec_fresh(&rec).violation.map(|s| s.class() == class).unwrap_or(false);
                        acc.violations.insert(class, (idx, rec, v, if solo { None } else { Some(from) }));
                    }
                }
            }
        },
    );
    let wall = t0.elapsed().as_secs_f64();

    let mut m = Acc::new();
    let mut first = u64::MAX;
    for a in &accs {
        for (_, (i, _, _, _)) in &a.violations {
            first = first.min(*i);
        }
    }
    let horizon = first.saturating_add(64 * RUN_BLOCK);
    for a in accs {
        m.runs += a.runs;
        m.steps += a.steps;
        m.walks += a.walks;
        for (x, y) in m.probes.iter_mut().zip(a.probes.iter()) {
            *x += *y;
        }
        for (x, y) in m.by_strategy.iter_mut().zip(a.by_strategy.iter()) {
            *x += *y;
        }
        for i in 0..4 {
            m.by_flavour[i] += a.by_flavour[i];
        }
        m.states_capped |= a.states_capped;
        m.states.extend(a.states);
        m.shapes.extend(a.shapes);
        m.max_height = m.max_height.max(a.max_height);
        m.violating_runs += a.violating_runs;
        for (c, (i, r, v, ctx)) in a.violations {
            if i > horizon {
                continue;
            }
            match m.violations.get(&c) {
                Some((j, _, _, _)) if *j <= i => {}
                _ => {
                    m.violations.insert(c, (i, r, v, ctx));
                }
            }
        }
        m.samples.extend(a.samples);
    }
    m.samples.sort_by_key(|s| s.num_of("run_index").unwrap_or(0));
    m.samples.truncate(2);

    install_hook();
    let mut vio = Vec::new();
    for (class, (idx, rec, v, ctx)) in m.violations.iter().take(10) {
        let prop = v.property();
        let path = format!("{}/{}-ctl-{}-{}.json", replay_dir, prop, master, idx);
        let (file, detail) = match ctx {
            None => {
                let (mut min_rec, evals) = minimise(rec, class, 20_000, &exec_fresh);
                let fv = match exec_fresh(&min_rec).violation {
                    Some(fv) => fv,
                    None => {
                        // never pair a violation with a record that does not show it
                        min_rec = rec.clone();
                        v.clone()
                    }
                };
                (
                    Json::obj()
                        .with("property", Json::s(prop))
                        .with("seed", Json::n(master as i128))
                        .with("run_index", Json::n(*idx as i128))
                        .with("violation", fv.to_json())
                        .with("minimiser_evaluations", Json::u(evals))
                        .with("original_size", Json::obj().with("ops", Json::u(rec.ops.len())).with("priorities", Json::u(rec.priorities.len())))
                        .with("record", min_rec.to_json()),
                    fv.detail.clone(),
                )
            }
            Some(from) => (
                // the run violates only after the earlier runs of its block on the same thread: the
                // library keeps thread-local state between unrelated treaps; replay = the block prefix
                Json::obj()
                    .with("property", Json::s(prop))
                    .with("seed", Json::n(master as i128))
                    .with("run_index", Json::n(*idx as i128))
                    .with("violation", v.to_json())
                    .with("note", Json::s("not reproducible as a single run on a fresh thread: it needs the runs from..to-1 executed before it on the same thread (thread-local state inside the library); replayed as that block prefix"))
                    .with("record", Json::obj().with("engine", Json::s("treapsim")).with("by_index_block", Json::obj().with("seed", Json::n(master as i128)).with("from", Json::n(*from as i128)).with("to", Json::n(*idx as i128)))),
                format!("{} [only after runs {}..{} on the same thread]", v.detail, from, idx),
            ),
        };
        let written = std::fs::write(&path, file.pretty()).is_ok();
        vio.push(
            Json::obj()
                .with("property", Json::s(prop))
                .with("class", Json::s(class))
                .with("run_index", Json::n(*idx as i128))
                .with("detail", Json::s(&detail))
                .with("replay", Json::s(&path))
                .with("replay_written", Json::Bool(written)),
        );
    }

    let catalan = [1usize, 2, 5, 14, 42, 132];
    let shapes_by_n: Vec<Json> = (1..=6)
        .map(|n| Json::obj().with("n", Json::u(n)).with("reached", Json::u(m.shapes.iter().filter(|(k, _)| *k == n).count())).with("catalan", Json::u(catalan[n - 1])))
        .collect();
    let probes = Json::Obj(PROBES.iter().zip(m.probes.iter()).map(|(n, v)| (n.to_string(), Json::n(*v as i128))).collect());
    let zeros: Vec<Json> = PROBES.iter().zip(m.probes.iter()).filter(|(_, v)| **v == 0).map(|(n, _)| Json::s(n)).collect();
    Json::obj()
        .with("engine", Json::s("treapsim-ctl"))
        .with("seed", Json::n(master as i128))
        .with("workers", Json::u(workers))
        .with("hook_active", Json::Bool(hook))
        .with("runs", Json::n(m.runs as i128))
        .with("steps", Json::n(m.steps as i128))
        .with("invariant_walks", Json::n(m.walks as i128))
        .with("runs_by_priority_strategy", Json::Obj(STRATEGIES.iter().zip(m.by_strategy.iter()).map(|(s, c)| (s.name().to_string(), Json::n(*c as i128))).collect()))
        .with("runs_by_flavour", Json::obj().with("general", Json::n(m.by_flavour[0] as i128)).with("sorted", Json::n(m.by_flavour[1] as i128)).with("lazy_heavy", Json::n(m.by_flavour[2] as i128)).with("deep", Json::n(m.by_flavour[3] as i128)))
        .with("probes", probes)
        .with("probes_at_zero", Json::Arr(zeros))
        .with("distinct_states", Json::u(m.states.len()))
        .with("distinct_states_capped", Json::Bool(m.states_capped))
        .with("shapes_reached", Json::Arr(shapes_by_n))
        .with("max_height_seen", Json::u(m.max_height))
        .with("violating_runs", Json::n(m.violating_runs as i128))
        .with("violations", Json::Arr(vio))
        .with("samples", Json::Arr(m.samples))
        .with("wall_s", Json::Float(wall))
}

fn replay(path: &str) -> i32 {
    let text = match std::fs::read_to_string(path) {
        Ok(t) => t,
        Err(e) => {
            eprintln!("treapsim: cannot read {}: {}", path, e);
            return 2;
        }
    };
    let j = match Json::parse(&text) {
        Ok(j) => j,
        Err(e) => {
            eprintln!("treapsim: bad replay file: {}", e);
            return 2;
        }
    };
    let rec_j = j.get("record").unwrap_or(&j);
    match rec_j.str_of("engine") {
        Some("treapsim") if rec_j.get("by_index_block").is_some() => {
            let b = rec_j.get("by_index_block").unwrap();
            let g = |k: &str| b.num_of(k).unwrap_or(0) as u64;
            let (seed, from, to) = (g("seed"), g("from"), g("to"));
            println!("replaying controlled-priority runs {}..={} of seed {} on one fresh thread", from, to, seed);
            let res = simcore::par::with_timeout(simcore::par::hang_limit(), move || run_block(seed, from, to + 1, false).pop().and_then(|(_, _, o, _, _)| o.violation.map(|v| (v.class(), v.detail))));
            match res {
                None => {
                    println!("REPLAY-VIOLATION class=treap/hang// detail=the block did not finish within {} s", simcore::par::hang_limit().as_secs());
                    1
                }
                Some(Some((c, d))) => {
                    println!("REPLAY-VIOLATION class={} detail={}", c, d);
                    1
                }
                Some(None) => {
                    println!("REPLAY-CLEAN");
                    0
                }
            }
        }
        Some("treapsim") if rec_j.get("by_index").is_some() => {
            // hang / crash containment reports the index the parallel runner iterates over, which
            // is a BLOCK of RUN_BLOCK consecutive runs executed on one fresh thread
            let b = rec_j.get("by_index").unwrap();
            let (seed, block) = (b.num_of("seed").unwrap_or(0) as u64, b.num_of("index").unwrap_or(0) as u64);
            println!("replaying controlled-priority block {} (runs {}..{}) of seed {}", block, block * RUN_BLOCK, (block + 1) * RUN_BLOCK, seed);
            let res = simcore::par::with_timeout(simcore::par::hang_limit(), move || {
                run_block(seed, block * RUN_BLOCK, (block + 1) * RUN_BLOCK, false).into_iter().find_map(|(_, _, o, _, _)| o.violation.map(|v| (v.class(), v.detail)))
            });
            match res {
                None => {
                    println!("REPLAY-VIOLATION class=treap/hang// detail=the block did not finish within {} s", simcore::par::hang_limit().as_secs());
                    1
                }
                Some(Some((c, d))) => {
                    println!("REPLAY-VIOLATION class={} detail={}", c, d);
                    1
                }
                Some(None) => {
                    println!("REPLAY-CLEAN");
                    0
                }
            }
        }
        Some("treapsim") => {
            let rec = match Record::from_json(rec_j) {
                Some(r) => r,
                None => {
                    eprintln!("treapsim: malformed record");
                    return 2;
                }
            };
            if !hook_active() {
                println!("note: priority hook not effective; only manual priorities are controlled");
            }
            let out = exec_fresh(&rec);
            println!("executed {} steps, {} invariant walks, {} priority draws", out.stats.steps, out.stats.walks, out.drawn.len());
            match out.violation {
                Some(v) => {
                    println!("REPLAY-VIOLATION class={} detail={}", v.class(), v.detail);
                    1
                }
                None => {
                    println!("REPLAY-CLEAN");
                    0
                }
            }
        }
        Some("treapsim-real") => {
            let g = |k: &str| rec_j.num_of(k).unwrap_or(0) as usize;
            let out = run_real(g("history_index"), g("n"), g("foreign_mode_index"), g("stride"), rec_j.num_of("seed").unwrap_or(0) as u64);
            println!("final n={} height={} bound={:.1}", out.final_n, out.final_height, out.bound);
            match out.violation {
                Some((c, d)) => {
                    println!("REPLAY-VIOLATION class={} detail={}", c, d);
                    1
                }
                None => {
                    println!("REPLAY-CLEAN");
                    0
                }
            }
        }
        other => {
            eprintln!("treapsim: not a treapsim record (engine = {:?})", other);
            2
        }
    }
}

/// Runs one real-priority history on a thread with a very large stack, so that a degenerate
/// (deep) tree is reported by the height invariant instead of overflowing the stack.
fn run_real(history: usize, n: usize, mode: usize, stride: usize, seed: u64) -> real::RealOut {
    std::thread::Builder::new()
        .stack_size(4 << 30)
        .spawn(move || real::run_history(history % real::HISTORIES.len(), n, mode % real::STRIDES.len(), stride, seed))
        .expect("spawn")
        .join()
        .expect("real-priority history panicked")
}

fn main() {
    let args: Vec<String> = std::env::args().collect();
    let cmd = args.get(1).map(|s| s.as_str()).unwrap_or("");
    let code = match cmd {
        "ctl" => {
            simcore::silence_panics();
            let runs: u64 = arg(&args, "--runs").and_then(|s| s.parse().ok()).unwrap_or(1000);
            let seed: u64 = arg(&args, "--seed").and_then(|s| s.parse().ok()).unwrap_or_else(simcore::verif_seed);
            let replay_dir = arg(&args, "--replay-dir").unwrap_or_else(|| ".".into());
            let s = ctl(seed, runs, &replay_dir).pretty();
            match arg(&args, "--out") {
                Some(p) => std::fs::write(&p, s).map(|_| 0).unwrap_or(2),
                None => {
                    print!("{}", s);
                    0
                }
            }
        }
        "real" => {
            let g = |k: &str, d: usize| arg(&args, k).and_then(|s| s.parse().ok()).unwrap_or(d);
            let (h, n, mode, stride) = (g("--history", 0), g("--n", 1000), g("--mode", 0), g("--stride", 1));
            let seed: u64 = arg(&args, "--seed").and_then(|s| s.parse().ok()).unwrap_or(1);
            let out = run_real(h, n, mode, stride, seed);
            println!("{}", real::to_json(h % real::HISTORIES.len(), n, mode % real::STRIDES.len(), stride, seed, &out).to_string());
            0
        }
        "replay" => {
            simcore::silence_panics();
            match args.get(2) {
                Some(p) => replay(p),
                None => 2,
            }
        }
        "ctlblock" => {
            // one block of RUN_BLOCK controlled histories in THIS process, on the first thread that
            // creates nodes: with the plain build (no hook) the library's own generator answers the
            // draws, and a fresh process makes that deterministic
            simcore::silence_panics();
            let seed: u64 = arg(&args, "--seed").and_then(|s| s.parse().ok()).unwrap_or_else(simcore::verif_seed);
            let block: u64 = arg(&args, "--block").and_then(|s| s.parse().ok()).unwrap_or(0);
            let (from, to) = (block * RUN_BLOCK, (block + 1) * RUN_BLOCK);
            let mut steps = 0u64;
            let mut walks = 0u64;
            let mut vio: Vec<Json> = Vec::new();
            let mut seen: HashSet<String> = HashSet::new();
            for (idx, _rec, out, _, _) in run_block(seed, from, to, false) {
                steps += out.stats.steps;
                walks += out.stats.walks;
                if let Some(v) = out.violation {
                    if seen.insert(v.class()) {
                        vio.push(Json::obj().with("class", Json::s(&v.class())).with("detail", Json::s(&v.detail)).with("run_index", Json::n(idx as i128)).with("property", Json::s(v.property())));
                    }
                }
            }
            println!(
                "{}",
                Json::obj()
                    .with("engine", Json::s("treapsim-ctlblock"))
                    .with("hook_compiled_in", Json::Bool(cfg!(feature = "hook")))
                    .with("seed", Json::n(seed as i128))
                    .with("block", Json::n(block as i128))
                    .with("from", Json::n(from as i128))
                    .with("runs", Json::n((to - from) as i128))
                    .with("steps", Json::n(steps as i128))
                    .with("invariant_walks", Json::n(walks as i128))
                    .with("violations", Json::Arr(vio))
                    .to_string()
            );
            0
        }
        "digest" => {
            simcore::silence_panics();
            let runs: u64 = arg(&args, "--runs").and_then(|s| s.parse().ok()).unwrap_or(1000);
            let seed: u64 = arg(&args, "--seed").and_then(|s| s.parse().ok()).unwrap_or_else(simcore::verif_seed);
            if !hook_active() {
                eprintln!("treapsim: hook not active");
                std::process::exit(2);
            }
            let accs = par_for(
                runs,
                workers_from_env(),
                |_| {
                    install_hook();
                    Vec::<(u64, u64)>::new()
                },
                move |acc, idx, _| {
                    let (rec, out, _, _) = one_run(seed, idx, true);
                    let mut d = Digest::new();
                    d.bytes(rec.to_json().to_string().as_bytes());
                    for s in &out.stats.state_digests {
                        d.word(*s);
                    }
                    for p in &out.stats.probes {
                        d.word(*p);
                    }
                    for p in &out.drawn {
                        d.word(*p as u64);
                    }
                    d.bytes(out.violation.map(|v| v.class()).unwrap_or_default().as_bytes());
                    acc.push((idx, d.finish()));
                },
            );
            let mut all: Vec<(u64, u64)> = accs.into_iter().flatten().collect();
            all.sort_unstable();
            for (i, d) in all {
                println!("{} {:016x}", i, d);
            }
            0
        }
        "hookcheck" => {
            println!("hook_active={}", hook_active());
            0
        }
        _ => {
            eprintln!("usage: treapsim ctl|real|replay|digest|hookcheck ...");
            2
        }
    };
    std::process::exit(code);
}
