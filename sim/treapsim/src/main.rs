fn main(){}
