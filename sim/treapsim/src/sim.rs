//! Controlled-priority treap simulation (properties C03 and, for the heap-order clause, C16):
//! operation histories over a pool of treaps, a vector reference model, a non-mutating walk
//! oracle evaluated after every step, run records, minimisation.

use crate::item::*;
use rlib_treap::{Treap, TreapNode};
use simcore::{panic_message, Digest, Json};
use std::cell::RefCell;
use std::panic::{catch_unwind, AssertUnwindSafe};

pub const POOL: usize = 4;
pub const MAX_LEN: usize = 48;

// ---------------------------------------------------------------------------------------------
// priority source (the randomness seam)

pub struct PrioState {
    /// explicit priorities, consumed in draw order
    pub list: Vec<u32>,
    pub next: usize,
    /// every priority handed out, in draw order (becomes the record's list)
    pub drawn: Vec<u32>,
    pub fallback: u32,
}

thread_local! {
    pub static PRIO: RefCell<PrioState> = RefCell::new(PrioState { list: Vec::new(), next: 0, drawn: Vec::new(), fallback: 0x8000_0000 });
}

/// Installed through the `verif` hook of rlib_treap: answers every priority draw of this thread.
pub fn hook_source() -> u32 {
    PRIO.with(|p| {
        let mut p = p.borrow_mut();
        let v = if p.next < p.list.len() { p.list[p.next] } else { p.fallback };
        p.next += 1;
        p.drawn.push(v);
        v
    })
}

pub fn set_priorities(list: Vec<u32>) {
    PRIO.with(|p| {
        let mut p = p.borrow_mut();
        p.list = list;
        p.next = 0;
        p.drawn.clear();
    })
}

pub fn drawn_priorities() -> Vec<u32> {
    PRIO.with(|p| p.borrow().drawn.clone())
}

/// Routes this thread's priority draws to `hook_source`.  The `treapsim_plain` package compiles the
/// same sources against rlib_treap as shipped (its `verif` feature off): there is no hook then, the
/// library draws from its own generator and only ManualInsert priorities are controlled.
#[cfg(feature = "hook")]
pub fn install_hook() {
    rlib_treap::verif::set_priority_source(Some(hook_source));
}
#[cfg(not(feature = "hook"))]
pub fn install_hook() {}

/// True iff the hook in /repo is present and effective on this thread.
pub fn hook_active() -> bool {
    if !cfg!(feature = "hook") {
        return false;
    }
    install_hook();
    set_priorities(vec![0xDEAD_BEEF, 0x0BAD_CAFE]);
    let a = TreapNode::new(0u8).priority;
    let b = Treap::<Unit>::from_item(Unit).root.map(|n| n.priority);
    set_priorities(vec![]);
    a == 0xDEAD_BEEF && b == Some(0x0BAD_CAFE)
}

pub struct Unit;
impl rlib_treap::TreapItem for Unit {}

// ---------------------------------------------------------------------------------------------
// operations

#[derive(Clone, PartialEq, Eq, Debug)]
pub enum Op {
    /// slot = merge(slot, from_item(value))  (or from_item alone if the slot is empty)
    FromItem { slot: usize, value: u64 },
    InsertAt { slot: usize, pos: usize, value: u64 },
    /// node built with TreapNode::new, priority overwritten through the public field, inserted by
    /// public split_at + merge (seam without any hook)
    ManualInsert { slot: usize, pos: usize, value: u64, priority: u32 },
    RemoveAt { slot: usize, pos: usize },
    /// the item returned by slot.remove_at(pos) is put back as it came: how 0 = dst.insert_at(dst_pos),
    /// 1 = dst = merge(dst, from_item(item)), 2 = dst = merge(from_item(item), dst)
    MoveItem { slot: usize, pos: usize, dst: usize, dst_pos: usize, how: u8 },
    /// an item that already carries a pending modification x -> a*x + b (attached to it while it
    /// is outside any treap, e.g. through its own setter) is inserted: how as in MoveItem.  With
    /// `from` = Some(pos) the item is the one remove_at(pos) returned ("move and bump"), else fresh.
    TaggedInsert { slot: usize, from: Option<usize>, dst: usize, dst_pos: usize, how: u8, value: u64, a: u64, b: u64 },
    /// (l, r) = src.split_at(pos); src = l; dst = merge(r, dst); with dst == src: src = merge(r, l)
    SplitMove { src: usize, pos: usize, dst: usize, node_api: bool },
    /// same through split_by; `threshold` asks for a value-threshold predicate when the
    /// sequence is sorted (else, and otherwise, an identity-prefix predicate)
    SplitByMove { src: usize, pos: usize, dst: usize, threshold: bool, node_api: bool },
    Merge { a: usize, b: usize, node_api: bool },
    /// split out [l, r], attach x -> a*x + b at its root, merge back, without reading
    RangeModify { slot: usize, l: usize, r: usize, a: u64, b: u64 },
    /// split out [l, r], read the root aggregate, merge back
    RangeAgg { slot: usize, l: usize, r: usize },
    First { slot: usize },
    Last { slot: usize },
    Size { slot: usize },
    Collect { slot: usize },
    /// direct use of the node-level API on a live treap: descend `depth` links from the public
    /// root following the bits of `path` (0 = left) without pushing, then what 0 = node.push(),
    /// 1 = node.push(); node.update(), 2 = collect_into on the root (depth ignored)
    NodePoke { slot: usize, path: u32, depth: u8, what: u8 },
}

impl Op {
    pub fn kind(&self) -> &'static str {
        match self {
            Op::FromItem { .. } => "from_item",
            Op::InsertAt { .. } => "insert_at",
            Op::ManualInsert { .. } => "manual_insert",
            Op::RemoveAt { .. } => "remove_at",
            Op::MoveItem { .. } => "move_item",
            Op::TaggedInsert { .. } => "tagged_insert",
            Op::SplitMove { .. } => "split_at",
            Op::SplitByMove { .. } => "split_by",
            Op::Merge { .. } => "merge",
            Op::RangeModify { .. } => "range_modify",
            Op::RangeAgg { .. } => "range_aggregate",
            Op::First { .. } => "first",
            Op::Last { .. } => "last",
            Op::Size { .. } => "size",
            Op::Collect { .. } => "collect",
            Op::NodePoke { .. } => "node_poke",
        }
    }
    pub fn to_json(&self) -> Json {
        let o = Json::obj().with("op", Json::s(self.kind()));
        match self {
            Op::FromItem { slot, value } => o.with("slot", Json::u(*slot)).with("value", Json::n(*value)),
            Op::InsertAt { slot, pos, value } => o.with("slot", Json::u(*slot)).with("pos", Json::u(*pos)).with("value", Json::n(*value)),
            Op::ManualInsert { slot, pos, value, priority } => o.with("slot", Json::u(*slot)).with("pos", Json::u(*pos)).with("value", Json::n(*value)).with("priority", Json::n(*priority)),
            Op::RemoveAt { slot, pos } => o.with("slot", Json::u(*slot)).with("pos", Json::u(*pos)),
            Op::MoveItem { slot, pos, dst, dst_pos, how } => o.with("slot", Json::u(*slot)).with("pos", Json::u(*pos)).with("dst", Json::u(*dst)).with("dst_pos", Json::u(*dst_pos)).with("how", Json::n(*how)),
            Op::TaggedInsert { slot, from, dst, dst_pos, how, value, a, b } => {
                let o = o.with("slot", Json::u(*slot)).with("dst", Json::u(*dst)).with("dst_pos", Json::u(*dst_pos)).with("how", Json::n(*how)).with("value", Json::n(*value)).with("a", Json::n(*a)).with("b", Json::n(*b));
                match from {
                    Some(p) => o.with("from", Json::u(*p)),
                    None => o,
                }
            }
            Op::SplitMove { src, pos, dst, node_api } => o.with("src", Json::u(*src)).with("pos", Json::u(*pos)).with("dst", Json::u(*dst)).with("node_api", Json::Bool(*node_api)),
            Op::SplitByMove { src, pos, dst, threshold, node_api } => {
                o.with("src", Json::u(*src)).with("pos", Json::u(*pos)).with("dst", Json::u(*dst)).with("threshold", Json::Bool(*threshold)).with("node_api", Json::Bool(*node_api))
            }
            Op::Merge { a, b, node_api } => o.with("a", Json::u(*a)).with("b", Json::u(*b)).with("node_api", Json::Bool(*node_api)),
            Op::RangeModify { slot, l, r, a, b } => o.with("slot", Json::u(*slot)).with("l", Json::u(*l)).with("r", Json::u(*r)).with("a", Json::n(*a)).with("b", Json::n(*b)),
            Op::RangeAgg { slot, l, r } => o.with("slot", Json::u(*slot)).with("l", Json::u(*l)).with("r", Json::u(*r)),
            Op::First { slot } | Op::Last { slot } | Op::Size { slot } | Op::Collect { slot } => o.with("slot", Json::u(*slot)),
            Op::NodePoke { slot, path, depth, what } => o.with("slot", Json::u(*slot)).with("path", Json::n(*path)).with("depth", Json::n(*depth)).with("what", Json::n(*what)),
        }
    }
    pub fn from_json(j: &Json) -> Option<Op> {
        let u = |k: &str| j.num_of(k).map(|n| n as usize);
        let v = |k: &str| j.num_of(k).map(|n| n as u64);
        let b = |k: &str| matches!(j.get(k), Some(Json::Bool(true)));
        Some(match j.str_of("op")? {
            "from_item" => Op::FromItem { slot: u("slot")?, value: v("value")? },
            "insert_at" => Op::InsertAt { slot: u("slot")?, pos: u("pos")?, value: v("value")? },
            "manual_insert" => Op::ManualInsert { slot: u("slot")?, pos: u("pos")?, value: v("value")?, priority: v("priority")? as u32 },
            "remove_at" => Op::RemoveAt { slot: u("slot")?, pos: u("pos")? },
            "move_item" => Op::MoveItem { slot: u("slot")?, pos: u("pos")?, dst: u("dst")?, dst_pos: u("dst_pos")?, how: v("how")? as u8 },
            "tagged_insert" => Op::TaggedInsert { slot: u("slot")?, from: u("from"), dst: u("dst")?, dst_pos: u("dst_pos")?, how: v("how")? as u8, value: v("value")?, a: v("a")?, b: v("b")? },
            "split_at" => Op::SplitMove { src: u("src")?, pos: u("pos")?, dst: u("dst")?, node_api: b("node_api") },
            "split_by" => Op::SplitByMove { src: u("src")?, pos: u("pos")?, dst: u("dst")?, threshold: b("threshold"), node_api: b("node_api") },
            "merge" => Op::Merge { a: u("a")?, b: u("b")?, node_api: b("node_api") },
            "range_modify" => Op::RangeModify { slot: u("slot")?, l: u("l")?, r: u("r")?, a: v("a")?, b: v("b")? },
            "range_aggregate" => Op::RangeAgg { slot: u("slot")?, l: u("l")?, r: u("r")? },
            "first" => Op::First { slot: u("slot")? },
            "last" => Op::Last { slot: u("slot")? },
            "size" => Op::Size { slot: u("slot")? },
            "collect" => Op::Collect { slot: u("slot")? },
            "node_poke" => Op::NodePoke { slot: u("slot")?, path: v("path")? as u32, depth: v("depth")? as u8, what: v("what")? as u8 },
            _ => return None,
        })
    }
}

#[derive(Clone, Debug)]
pub struct Record {
    /// priorities in draw order (hook seam); draws beyond the list get 0x80000000
    pub priorities: Vec<u32>,
    pub ops: Vec<Op>,
    /// per-treap size cap of the run (inserts beyond it are skipped); 48 except in deep runs
    pub max_len: usize,
}

impl Record {
    pub fn to_json(&self) -> Json {
        Json::obj()
            .with("engine", Json::s("treapsim"))
            .with("max_len", Json::u(self.max_len))
            .with("priorities", Json::Arr(self.priorities.iter().map(|p| Json::n(*p)).collect()))
            .with("ops", Json::Arr(self.ops.iter().map(|o| o.to_json()).collect()))
    }
    pub fn from_json(j: &Json) -> Option<Record> {
        Some(Record {
            priorities: j.arr_of("priorities")?.iter().map(|p| p.as_num().map(|n| n as u32)).collect::<Option<Vec<_>>>()?,
            ops: j.arr_of("ops")?.iter().map(Op::from_json).collect::<Option<Vec<_>>>()?,
            max_len: j.num_of("max_len").map(|n| n as usize).unwrap_or(MAX_LEN),
        })
    }
}

// ---------------------------------------------------------------------------------------------
// oracle: non-mutating walk over the public node fields

#[derive(Default, Clone, Copy)]
pub struct HeapDir {
    pub lt: bool, // some parent has a strictly smaller priority than its child
    pub gt: bool, // some parent has a strictly larger priority than its child
    pub ties: u64,
}

const EMPTY_AGG: Agg = Agg { n: 0, sum: 0, hash: 0, pw: 1, g: 0 };

/// the aggregate of a sequence after x -> a*x + b on every element and + d on its first element
fn agg_apply(x: Agg, a: u64, b: u64, d: u64) -> Agg {
    if x.n == 0 {
        return x;
    }
    Agg { n: x.n, sum: addmod(addmod(mulmod(a, x.sum), mulmod(b, x.n as u64 % P)), d), hash: addmod(addmod(mulmod(a, x.hash), mulmod(b, x.g)), d), pw: x.pw, g: x.g }
}

fn agg_combine(l: Agg, x: u64, r: Agg) -> Agg {
    let lpb = mulmod(l.pw, BASE);
    Agg {
        n: l.n + 1 + r.n,
        sum: addmod(addmod(l.sum, x), r.sum),
        hash: addmod(addmod(l.hash, mulmod(l.pw, x)), mulmod(lpb, r.hash)),
        pw: mulmod(lpb, r.pw),
        g: addmod(addmod(l.g, l.pw), mulmod(lpb, r.g)),
    }
}

/// One pass over the subtree of `node` (linear in its size).  `anc` is the composition of the
/// pending maps of all proper ancestors (nearest applied first): it takes a value at the node's
/// own level to the value the sequence really holds.  Appends the represented elements to `seq`
/// in order and returns the true aggregate of the subtree *at the node's own level* (pending
/// maps of the node and its descendants applied, those of its ancestors not), which is what
/// the node must have stored.  Never pushes: observation must not perturb the lazy state.
#[allow(clippy::too_many_arguments)]
fn walk(node: &TreapNode<It>, depth: usize, anc: (u64, u64, u64), seq: &mut Vec<(u32, u64)>, max_depth: &mut usize, heap: &mut HeapDir, shape: &mut Digest, pending_nodes: &mut u32) -> Result<Agg, String> {
    *max_depth = (*max_depth).max(depth);
    let it = &node.item;
    if !it.pending_is_identity() {
        *pending_nodes += 1;
        shape.byte(b'p');
    }
    // for the children: first this node's pending map, then everything above
    // anc = (A, B, D): A*x + B on every element of this subtree, then + D on its first element.
    // For the left child: first this node's pending map, then everything above, and the first
    // element of this subtree is the first element of the left subtree; the right child gets no D.
    let below = (mulmod(anc.0, it.pa), addmod(mulmod(anc.0, it.pb), anc.1), addmod(mulmod(anc.0, it.pd), anc.2));
    let below_right = (below.0, below.1, 0);
    shape.byte(b'(');
    let mut l = EMPTY_AGG;
    if let Some(c) = &node.left {
        note_edge(node.priority, c.priority, heap);
        l = walk(c, depth + 1, below, seq, max_depth, heap, shape, pending_nodes)?;
    }
    shape.byte(b'.');
    // the node's own pending first-bump is already in it.x when it has no left child; the
    // ancestors' D reaches it only then, too
    let own = addmod(mulmod(anc.0, it.x), anc.1);
    seq.push((it.uid, if node.left.is_none() { addmod(own, anc.2) } else { own }));
    let mut r = EMPTY_AGG;
    if let Some(c) = &node.right {
        note_edge(node.priority, c.priority, heap);
        r = walk(c, depth + 1, below_right, seq, max_depth, heap, shape, pending_nodes)?;
    }
    shape.byte(b')');
    let want = agg_combine(agg_apply(l, it.pa, it.pb, it.pd), it.x, agg_apply(r, it.pa, it.pb, 0));
    if it.agg() != want {
        return Err(format!(
            "aggregate stored at the subtree root with uid {} is {:?} but the fold of exactly its {} elements is {:?}",
            it.uid,
            it.agg(),
            want.n,
            want
        ));
    }
    Ok(want)
}

fn note_edge(parent: u32, child: u32, heap: &mut HeapDir) {
    if parent < child {
        heap.lt = true;
    } else if parent > child {
        heap.gt = true;
    } else {
        heap.ties += 1;
    }
}

pub struct WalkOut {
    pub seq: Vec<(u32, u64)>,
    pub height: usize,
    pub heap: HeapDir,
    pub state_digest: u64,
    pub pending_nodes: u32,
}

pub fn observe(t: &Treap<It>) -> Result<WalkOut, String> {
    let mut max_depth = 0;
    let mut heap = HeapDir::default();
    let mut shape = Digest::new();
    let mut pending = 0;
    let mut seq = Vec::with_capacity(t.root.as_ref().map(|r| r.item.n.min(1024)).unwrap_or(0));
    if let Some(r) = &t.root {
        walk(r, 1, (1, 0, 0), &mut seq, &mut max_depth, &mut heap, &mut shape, &mut pending)?;
    }
    Ok(WalkOut { seq, height: max_depth, heap, state_digest: shape.finish(), pending_nodes: pending })
}

/// Shape code (balanced parentheses as bits) for small trees, to count Catalan coverage.
pub fn shape_code(t: &Treap<It>) -> Option<(usize, u32)> {
    fn go(n: &Option<Box<TreapNode<It>>>, code: &mut u32, bits: &mut u32) {
        if let Some(n) = n {
            *code = (*code << 1) | 1;
            *bits += 1;
            go(&n.left, code, bits);
            go(&n.right, code, bits);
        } else {
            *code <<= 1;
            *bits += 1;
        }
    }
    let n = t.root.as_ref().map(|r| r.item.n).unwrap_or(0);
    if n == 0 || n > 6 {
        return None;
    }
    let (mut code, mut bits) = (0u32, 0u32);
    go(&t.root, &mut code, &mut bits);
    Some((n, code))
}

// ---------------------------------------------------------------------------------------------
// execution

#[derive(Clone, Debug)]
pub struct Violation {
    /// "result" | "sequence" | "aggregate" | "heap" | "panic" | "collect"
    pub oracle: &'static str,
    pub op_kind: String,
    pub op_index: usize,
    pub detail: String,
}

impl Violation {
    pub fn class(&self) -> String {
        let d = match self.oracle {
            "panic" => {
                let m: String = self.detail.chars().map(|c| if c.is_ascii_digit() { '#' } else { c }).collect();
                m.chars().take(90).collect()
            }
            _ => String::new(),
        };
        format!("treap/{}/{}/{}", self.oracle, self.op_kind, d)
    }
    pub fn property(&self) -> &'static str {
        if self.oracle == "heap" {
            "C16"
        } else {
            "C03"
        }
    }
    pub fn to_json(&self) -> Json {
        Json::obj()
            .with("oracle", Json::s(self.oracle))
            .with("op_kind", Json::s(&self.op_kind))
            .with("op_index", Json::u(self.op_index))
            .with("class", Json::s(&self.class()))
            .with("detail", Json::s(&self.detail))
    }
}

pub const PROBES: &[&str] = &[
    "nonidentity_push_total",
    "nonidentity_push_in_merge",
    "nonidentity_push_in_split_at",
    "nonidentity_push_in_split_by",
    "nonidentity_push_in_first_last",
    "nonidentity_push_in_collect",
    "nonidentity_push_in_insert_remove",
    "composed_push_two_or_more_modifications",
    "priority_tie_on_an_edge",
    "split_at_zero",
    "split_at_len",
    "split_by_threshold_predicate",
    "split_by_identity_prefix_predicate",
    "spine_depth_equals_size_ge_8",
    "assign_then_add_on_overlapping_ranges",
    "add_then_assign_on_overlapping_ranges",
    "merge_both_roots_pending",
    "range_modify_on_whole_treap",
    "manual_priority_insert",
    "node_level_api_used",
    "rotation_split_swap",
    "remove_at_checked",
    "removed_item_reinserted",
    "asymmetric_modification_attached",
    "item_with_pending_modification_inserted",
    "node_level_collect_into",
    "node_level_push_on_live_node",
    "nonidentity_push_in_node_poke",
    "aggregate_of_split_out_part_checked",
    "three_or_more_live_treaps",
];

pub fn probe_idx(name: &str) -> usize {
    PROBES.iter().position(|n| *n == name).unwrap_or_else(|| panic!("harness: unknown probe {}", name))
}

#[derive(Default)]
pub struct ExecStats {
    pub steps: u64,
    pub probes: Vec<u64>,
    pub state_digests: Vec<u64>,
    pub shapes: Vec<(usize, u32)>,
    pub max_height: usize,
    pub walks: u64,
}

pub struct Pool {
    pub treaps: Vec<Treap<It>>,
    pub model: Vec<Vec<(u32, u64)>>,
    /// last whole-range modification kind per slot, to detect assign/add orderings (probe only)
    last_mod: Vec<Option<(bool, usize, usize)>>,
    next_uid: u32,
    max_len: usize,
}

fn nonid() -> u64 {
    NONID_PUSHES.with(|c| c.get())
}

fn is_sorted(m: &[(u32, u64)]) -> bool {
    m.windows(2).all(|w| w[0].1 <= w[1].1)
}

fn take(t: &mut Treap<It>) -> Treap<It> {
    std::mem::replace(t, Treap::new())
}

/// Applies one operation to the real treaps and to the model; returns a result mismatch if any.
fn apply(pool: &mut Pool, op: &Op, st: &mut ExecStats) -> Result<(), (&'static str, String)> {
    let hit = |st: &mut ExecStats, n: &str| st.probes[probe_idx(n)] += 1;
    let before = nonid();
    let mut push_probe: &str = "";
    match op {
        Op::FromItem { slot, value } => {
            let s = slot % POOL;
            if pool.model[s].len() >= pool.max_len {
                return Ok(());
            }
            let uid = pool.next_uid;
            pool.next_uid += 1;
            let single = Treap::from_item(It::new(uid, *value));
            let cur = take(&mut pool.treaps[s]);
            pool.treaps[s] = Treap::merge(cur, single);
            pool.model[s].push((uid, *value % P));
            push_probe = "nonidentity_push_in_merge";
            pool.last_mod[s] = None;
        }
        Op::InsertAt { slot, pos, value } => {
            let s = slot % POOL;
            if pool.model[s].len() >= pool.max_len {
                return Ok(());
            }
            let p = pos % (pool.model[s].len() + 1);
            let uid = pool.next_uid;
            pool.next_uid += 1;
            pool.treaps[s].insert_at(p, It::new(uid, *value));
            pool.model[s].insert(p, (uid, *value % P));
            pool.last_mod[s] = None;
            push_probe = "nonidentity_push_in_insert_remove";
        }
        Op::ManualInsert { slot, pos, value, priority } => {
            let s = slot % POOL;
            if pool.model[s].len() >= pool.max_len {
                return Ok(());
            }
            let p = pos % (pool.model[s].len() + 1);
            let uid = pool.next_uid;
            pool.next_uid += 1;
            let mut node = TreapNode::new(It::new(uid, *value));
            node.priority = *priority;
            let (l, r) = take(&mut pool.treaps[s]).split_at(p);
            pool.treaps[s] = Treap::merge(Treap::merge(l, Treap { root: Some(Box::new(node)) }), r);
            pool.model[s].insert(p, (uid, *value % P));
            hit(st, "manual_priority_insert");
            pool.last_mod[s] = None;
            push_probe = "nonidentity_push_in_insert_remove";
        }
        Op::RemoveAt { slot, pos } => {
            let s = slot % POOL;
            if pool.model[s].is_empty() {
                return Ok(());
            }
            let p = pos % pool.model[s].len();
            let got = pool.treaps[s].remove_at(p);
            let want = pool.model[s].remove(p);
            pool.last_mod[s] = None;
            hit(st, "remove_at_checked");
            push_probe = "nonidentity_push_in_insert_remove";
            if (got.uid, got.x) != want {
                return Err(("result", format!("remove_at({}) returned element (uid {}, value {}) but the sequence has (uid {}, value {}) there", p, got.uid, got.x, want.0, want.1)));
            }
        }
        Op::MoveItem { slot, pos, dst, dst_pos, how } => {
            let (s, d) = (slot % POOL, dst % POOL);
            if pool.model[s].is_empty() || (s != d && pool.model[d].len() >= 2 * pool.max_len) {
                return Ok(());
            }
            let p = pos % pool.model[s].len();
            let got = pool.treaps[s].remove_at(p);
            let want = pool.model[s].remove(p);
            pool.last_mod[s] = None;
            pool.last_mod[d] = None;
            hit(st, "removed_item_reinserted");
            push_probe = "nonidentity_push_in_insert_remove";
            let seen = (got.uid, got.x);
            // the item goes back exactly as remove_at handed it out
            match how % 3 {
                0 => {
                    let q = dst_pos % (pool.model[d].len() + 1);
                    pool.treaps[d].insert_at(q, got);
                    pool.model[d].insert(q, want);
                }
                1 => {
                    let cur = take(&mut pool.treaps[d]);
                    pool.treaps[d] = Treap::merge(cur, Treap::from_item(got));
                    pool.model[d].push(want);
                }
                _ => {
                    let cur = take(&mut pool.treaps[d]);
                    pool.treaps[d] = Treap::merge(Treap::from_item(got), cur);
                    pool.model[d].insert(0, want);
                }
            }
            if seen != want {
                return Err(("result", format!("remove_at({}) returned element (uid {}, value {}) but the sequence has (uid {}, value {}) there", p, seen.0, seen.1, want.0, want.1)));
            }
        }
        Op::TaggedInsert { slot, from, dst, dst_pos, how, value, a, b } => {
            let (s, d) = (slot % POOL, dst % POOL);
            let (mut item, old) = match from {
                Some(pos) => {
                    if pool.model[s].is_empty() || (s != d && pool.model[d].len() >= 2 * pool.max_len) {
                        return Ok(());
                    }
                    let p = pos % pool.model[s].len();
                    let got = pool.treaps[s].remove_at(p);
                    let want = pool.model[s].remove(p);
                    pool.last_mod[s] = None;
                    if (got.uid, got.x) != want {
                        return Err(("result", format!("remove_at({}) returned element (uid {}, value {}) but the sequence has (uid {}, value {}) there", p, got.uid, got.x, want.0, want.1)));
                    }
                    (got, want)
                }
                None => {
                    if pool.model[d].len() >= pool.max_len {
                        return Ok(());
                    }
                    let uid = pool.next_uid;
                    pool.next_uid += 1;
                    (It::new(uid, *value), (uid, *value % P))
                }
            };
            // the modification is attached to the item while it is outside every treap
            item.modify(*a % P, *b % P);
            let now = (old.0, crate::item::addmod(crate::item::mulmod(*a % P, old.1), *b % P));
            pool.last_mod[d] = None;
            hit(st, "item_with_pending_modification_inserted");
            push_probe = "nonidentity_push_in_insert_remove";
            match how % 3 {
                0 => {
                    let q = dst_pos % (pool.model[d].len() + 1);
                    pool.treaps[d].insert_at(q, item);
                    pool.model[d].insert(q, now);
                }
                1 => {
                    let cur = take(&mut pool.treaps[d]);
                    pool.treaps[d] = Treap::merge(cur, Treap::from_item(item));
                    pool.model[d].push(now);
                }
                _ => {
                    let cur = take(&mut pool.treaps[d]);
                    pool.treaps[d] = Treap::merge(Treap::from_item(item), cur);
                    pool.model[d].insert(0, now);
                }
            }
        }
        Op::SplitMove { src, pos, dst, node_api } => {
            let (s, d) = (src % POOL, dst % POOL);
            let len = pool.model[s].len();
            let p = pos % (len + 1);
            if s != d && pool.model[d].len() + (len - p) > 2 * pool.max_len {
                return Ok(());
            }
            if p == 0 {
                hit(st, "split_at_zero");
            }
            if p == len {
                hit(st, "split_at_len");
            }
            let (l, r) = if *node_api {
                hit(st, "node_level_api_used");
                let (a, b) = TreapNode::split_at(pool.treaps[s].root.take(), p);
                (Treap { root: a }, Treap { root: b })
            } else {
                take(&mut pool.treaps[s]).split_at(p)
            };
            let mid = nonid();
            if mid > before {
                hit(st, "nonidentity_push_in_split_at");
            }
            finish_split(pool, st, s, d, p, l, r, *node_api)?;
            push_probe = "nonidentity_push_in_merge";
            if nonid() == mid {
                push_probe = "";
            }
        }
        Op::SplitByMove { src, pos, dst, threshold, node_api } => {
            let (s, d) = (src % POOL, dst % POOL);
            let len = pool.model[s].len();
            let mut p = pos % (len + 1);
            if s != d && pool.model[d].len() + (len - p) > 2 * pool.max_len {
                return Ok(());
            }
            let use_threshold = *threshold && len > 0 && is_sorted(&pool.model[s]);
            let (l, r);
            if use_threshold {
                // value-threshold predicate on a sorted sequence: prefix-monotone by sortedness;
                // it reads the *current* value, so it also checks that pending maps reached the
                // node before the predicate looked at it
                let t = if p < len { pool.model[s][p].1 } else { u64::MAX };
                p = pool.model[s].iter().take_while(|e| e.1 < t).count();
                hit(st, "split_by_threshold_predicate");
                let pred = move |it: &It| it.x < t;
                if *node_api {
                    hit(st, "node_level_api_used");
                    let (a, b) = TreapNode::split_by(pool.treaps[s].root.take(), pred);
                    l = Treap { root: a };
                    r = Treap { root: b };
                } else {
                    let (a, b) = take(&mut pool.treaps[s]).split_by(pred);
                    l = a;
                    r = b;
                }
            } else {
                let prefix: Vec<u32> = pool.model[s][..p].iter().map(|e| e.0).collect();
                hit(st, "split_by_identity_prefix_predicate");
                let pred = move |it: &It| prefix.contains(&it.uid);
                if *node_api {
                    hit(st, "node_level_api_used");
                    let (a, b) = TreapNode::split_by(pool.treaps[s].root.take(), pred);
                    l = Treap { root: a };
                    r = Treap { root: b };
                } else {
                    let (a, b) = take(&mut pool.treaps[s]).split_by(pred);
                    l = a;
                    r = b;
                }
            }
            let mid = nonid();
            if mid > before {
                hit(st, "nonidentity_push_in_split_by");
            }
            finish_split(pool, st, s, d, p, l, r, *node_api)?;
            push_probe = "nonidentity_push_in_merge";
            if nonid() == mid {
                push_probe = "";
            }
        }
        Op::Merge { a, b, node_api } => {
            let (x, y) = (a % POOL, b % POOL);
            if x == y || pool.model[x].len() + pool.model[y].len() > 2 * pool.max_len {
                return Ok(());
            }
            let both_pending = pool.treaps[x].root().map(|i| !i.pending_is_identity()).unwrap_or(false) && pool.treaps[y].root().map(|i| !i.pending_is_identity()).unwrap_or(false);
            if both_pending {
                hit(st, "merge_both_roots_pending");
            }
            let (l, r) = (take(&mut pool.treaps[x]), take(&mut pool.treaps[y]));
            pool.treaps[x] = if *node_api {
                hit(st, "node_level_api_used");
                Treap { root: TreapNode::merge(l.root, r.root) }
            } else {
                Treap::merge(l, r)
            };
            let moved = std::mem::take(&mut pool.model[y]);
            pool.model[x].extend(moved);
            pool.last_mod[x] = None;
            pool.last_mod[y] = None;
            push_probe = "nonidentity_push_in_merge";
        }
        Op::RangeModify { slot, l, r, a, b } => {
            let s = slot % POOL;
            let len = pool.model[s].len();
            if len == 0 {
                return Ok(());
            }
            let (mut lo, mut hi) = (l % len, r % len);
            if lo > hi {
                std::mem::swap(&mut lo, &mut hi);
            }
            let (a, b) = (*a % P, *b % P);
            let (t12, t3) = take(&mut pool.treaps[s]).split_at(hi + 1);
            let (t1, mut t2) = t12.split_at(lo);
            // the asymmetric part (add d to the first element of the range) is derived from (a, b)
            // and left out while the sequence is sorted (threshold predicates need it to stay so)
            let d = if b % 3 == 0 || is_sorted(&pool.model[s]) { 0 } else { (b.wrapping_mul(7) + a + 1) % 1000 };
            match t2.root_mut() {
                Some(root) => root.modify_first(a, b, d),
                None => return Err(("result", format!("split_at produced an empty middle part for the non-empty range [{}, {}]", lo, hi))),
            }
            pool.treaps[s] = Treap::merge(t1, Treap::merge(t2, t3));
            for e in &mut pool.model[s][lo..=hi] {
                e.1 = addmod(mulmod(a, e.1), b);
            }
            pool.model[s][lo].1 = addmod(pool.model[s][lo].1, d);
            if d != 0 {
                hit(st, "asymmetric_modification_attached");
            }
            if lo == 0 && hi + 1 == len {
                hit(st, "range_modify_on_whole_treap");
            }
            let assign = a == 0;
            if let Some((was_assign, plo, phi)) = pool.last_mod[s] {
                let overlap = plo <= hi && lo <= phi;
                if overlap && was_assign && a == 1 && b != 0 {
                    hit(st, "assign_then_add_on_overlapping_ranges");
                }
                if overlap && !was_assign && assign {
                    hit(st, "add_then_assign_on_overlapping_ranges");
                }
            }
            pool.last_mod[s] = if assign || a == 1 { Some((assign, lo, hi)) } else { None };
            push_probe = "nonidentity_push_in_split_at";
        }
        Op::RangeAgg { slot, l, r } => {
            let s = slot % POOL;
            let len = pool.model[s].len();
            if len == 0 {
                return Ok(());
            }
            let (mut lo, mut hi) = (l % len, r % len);
            if lo > hi {
                std::mem::swap(&mut lo, &mut hi);
            }
            let (t12, t3) = take(&mut pool.treaps[s]).split_at(hi + 1);
            let (t1, t2) = t12.split_at(lo);
            let got = t2.root().map(|i| i.agg());
            let want = fold(pool.model[s][lo..=hi].iter().map(|e| e.1));
            pool.treaps[s] = Treap::merge(t1, Treap::merge(t2, t3));
            hit(st, "aggregate_of_split_out_part_checked");
            push_probe = "nonidentity_push_in_split_at";
            if got != Some(want) {
                return Err(("result", format!("aggregate at the root of the split-out part [{}, {}] is {:?} but the fold of those {} elements is {:?}", lo, hi, got, hi - lo + 1, want)));
            }
        }
        Op::First { slot } | Op::Last { slot } => {
            let s = slot % POOL;
            let first = matches!(op, Op::First { .. });
            let got = if first { pool.treaps[s].first() } else { pool.treaps[s].last() }.map(|i| (i.uid, i.x));
            let want = if first { pool.model[s].first() } else { pool.model[s].last() }.copied();
            push_probe = "nonidentity_push_in_first_last";
            if got != want {
                return Err(("result", format!("{}() returned {:?} but the sequence has {:?}", if first { "first" } else { "last" }, got, want)));
            }
        }
        Op::Size { slot } => {
            let s = slot % POOL;
            let (got, empty) = (pool.treaps[s].size(), pool.treaps[s].is_empty());
            if got != pool.model[s].len() || empty != pool.model[s].is_empty() {
                return Err(("result", format!("size() = {}, is_empty() = {} but the sequence has {} elements", got, empty, pool.model[s].len())));
            }
        }
        Op::Collect { slot } => {
            let s = slot % POOL;
            let got: Vec<(u32, u64)> = pool.treaps[s].collect().into_iter().map(|i| (i.uid, i.x)).collect();
            push_probe = "nonidentity_push_in_collect";
            if got != pool.model[s] {
                return Err(("collect", format!("collect() returned {:?} but the sequence is {:?}", got, pool.model[s])));
            }
        }
        Op::NodePoke { slot, path, depth, what } => {
            let s = slot % POOL;
            if *what % 3 == 2 {
                if let Some(root) = pool.treaps[s].root.as_deref_mut() {
                    let mut out: Vec<&It> = Vec::new();
                    root.collect_into(&mut out);
                    let got: Vec<(u32, u64)> = out.into_iter().map(|i| (i.uid, i.x)).collect();
                    hit(st, "node_level_collect_into");
                    if got != pool.model[s] {
                        return Err(("collect", format!("TreapNode::collect_into on the root returned {:?} but the sequence is {:?}", got, pool.model[s])));
                    }
                }
            } else {
                let mut node = pool.treaps[s].root.as_deref_mut();
                for d in 0..*depth {
                    let n = match node {
                        Some(n) => n,
                        None => break,
                    };
                    let child = if (path >> d) & 1 == 0 { n.left.is_some() } else { n.right.is_some() };
                    if !child {
                        node = Some(n);
                        break;
                    }
                    node = if (path >> d) & 1 == 0 { n.left.as_deref_mut() } else { n.right.as_deref_mut() };
                }
                if let Some(n) = node {
                    n.push();
                    if *what % 3 == 1 {
                        n.update();
                    }
                    hit(st, "node_level_push_on_live_node");
                }
            }
            push_probe = "nonidentity_push_in_node_poke";
        }
    }
    if !push_probe.is_empty() && nonid() > before {
        hit(st, push_probe);
    }
    Ok(())
}

#[allow(clippy::too_many_arguments)]
fn finish_split(pool: &mut Pool, st: &mut ExecStats, s: usize, d: usize, p: usize, l: Treap<It>, r: Treap<It>, node_api: bool) -> Result<(), (&'static str, String)> {
    let len = pool.model[s].len();
    // both halves are checked before they are merged anywhere
    for (name, part, want) in [("left", &l, &pool.model[s][..p]), ("right", &r, &pool.model[s][p..])] {
        match observe(part) {
            Ok(w) => {
                if w.seq != want {
                    return Err(("result", format!("the {} part of a split of a {}-element sequence at {} represents {:?}, expected {:?}", name, len, p, w.seq, want)));
                }
            }
            Err(e) => return Err(("aggregate", format!("in the {} part of a split at {}: {}", name, p, e))),
        }
        if part.size() != want.len() {
            return Err(("result", format!("the {} part of a split at {} reports size {} instead of {}", name, p, part.size(), want.len())));
        }
    }
    if s == d {
        st.probes[probe_idx("rotation_split_swap")] += 1;
        pool.treaps[s] = if node_api { Treap { root: TreapNode::merge(r.root, l.root) } } else { Treap::merge(r, l) };
        pool.model[s].rotate_left(p);
    } else {
        pool.treaps[s] = l;
        let old = take(&mut pool.treaps[d]);
        pool.treaps[d] = if node_api { Treap { root: TreapNode::merge(r.root, old.root) } } else { Treap::merge(r, old) };
        let tail: Vec<(u32, u64)> = pool.model[s].split_off(p);
        let mut newd = tail;
        newd.extend(std::mem::take(&mut pool.model[d]));
        pool.model[d] = newd;
        pool.last_mod[d] = None;
    }
    pool.last_mod[s] = None;
    Ok(())
}

pub struct ExecOut {
    pub violation: Option<Violation>,
    pub stats: ExecStats,
    pub drawn: Vec<u32>,
}

/// Executes a record against the real treap.
pub fn exec(rec: &Record, collect_states: bool) -> ExecOut {
    let mut it = rec.ops.iter();
    exec_source(&rec.priorities, rec.max_len, &mut |_, _| it.next().cloned(), collect_states).0
}

/// Executes operations drawn from `source` (which sees the model state, so that generated
/// arguments can depend on the current sequences); returns the outcome and the operations.
/// The priority list answers the draws of the library through the hook seam.
pub fn exec_source(priorities: &[u32], max_len: usize, source: &mut dyn FnMut(&[Vec<(u32, u64)>], usize) -> Option<Op>, collect_states: bool) -> (ExecOut, Vec<Op>) {
    set_priorities(priorities.to_vec());
    NONID_PUSHES.with(|c| c.set(0));
    COMPOSED_PUSHES.with(|c| c.set(0));
    let mut st = ExecStats { probes: vec![0; PROBES.len()], ..Default::default() };
    let mut pool = Pool { treaps: (0..POOL).map(|_| Treap::new()).collect(), model: vec![Vec::new(); POOL], last_mod: vec![None; POOL], next_uid: 1, max_len };
    let mut violation: Option<Violation> = None;
    let mut ops_done: Vec<Op> = Vec::new();

    let mut i = 0usize;
    while let Some(op) = source(&pool.model, i) {
        ops_done.push(op.clone());
        let op = &op;
        st.steps += 1;
        let res = {
            let pool_ref = &mut pool;
            let st_ref = &mut st;
            catch_unwind(AssertUnwindSafe(move || apply(pool_ref, op, st_ref)))
        };
        match res {
            Err(e) => {
                violation = Some(Violation { oracle: "panic", op_kind: op.kind().into(), op_index: i, detail: panic_message(&*e) });
                break;
            }
            Ok(Err((oracle, detail))) => {
                violation = Some(Violation { oracle, op_kind: op.kind().into(), op_index: i, detail });
                break;
            }
            Ok(Ok(())) => {}
        }
        // invariants after every step, on every live treap, without pushing anything
        let mut live = 0;
        for s in 0..POOL {
            if pool.model[s].is_empty() && pool.treaps[s].is_empty() {
                continue;
            }
            live += 1;
            st.walks += 1;
            match observe(&pool.treaps[s]) {
                Err(e) => {
                    violation = Some(Violation { oracle: "aggregate", op_kind: op.kind().into(), op_index: i, detail: format!("after step {} in treap {}: {}", i, s, e) });
                }
                Ok(w) => {
                    if w.seq != pool.model[s] {
                        violation = Some(Violation {
                            oracle: "sequence",
                            op_kind: op.kind().into(),
                            op_index: i,
                            detail: format!("after step {} treap {} represents {:?} but the operations so far give {:?}", i, s, w.seq, pool.model[s]),
                        });
                    } else if w.heap.lt && w.heap.gt {
                        violation = Some(Violation {
                            oracle: "heap",
                            op_kind: op.kind().into(),
                            op_index: i,
                            detail: format!("after step {} treap {} has parent-child edges ordered in both directions (not a heap in either direction)", i, s),
                        });
                    }
                    if w.heap.ties > 0 {
                        st.probes[probe_idx("priority_tie_on_an_edge")] += 1;
                    }
                    if w.height == w.seq.len() && w.seq.len() >= 8 {
                        st.probes[probe_idx("spine_depth_equals_size_ge_8")] += 1;
                    }
                    st.max_height = st.max_height.max(w.height);
                    if collect_states {
                        st.state_digests.push(w.state_digest);
                        if let Some(sc) = shape_code(&pool.treaps[s]) {
                            st.shapes.push(sc);
                        }
                    }
                }
            }
            if violation.is_some() {
                break;
            }
        }
        if live >= 3 {
            st.probes[probe_idx("three_or_more_live_treaps")] += 1;
        }
        if violation.is_some() {
            break;
        }
        i += 1;
    }
    let n_ops = ops_done.len();

    // final: collect() (this one pushes) must agree with the model
    if violation.is_none() {
        for s in 0..POOL {
            let res = {
                let t = &mut pool.treaps[s];
                catch_unwind(AssertUnwindSafe(move || t.collect().into_iter().map(|i| (i.uid, i.x)).collect::<Vec<_>>()))
            };
            match res {
                Err(e) => {
                    violation = Some(Violation { oracle: "panic", op_kind: "final_collect".into(), op_index: n_ops, detail: panic_message(&*e) });
                    break;
                }
                Ok(got) => {
                    if got != pool.model[s] {
                        violation = Some(Violation { oracle: "collect", op_kind: "final_collect".into(), op_index: n_ops, detail: format!("final collect() of treap {} returned {:?} but the sequence is {:?}", s, got, pool.model[s]) });
                        break;
                    }
                }
            }
        }
    }
    st.probes[probe_idx("nonidentity_push_total")] += nonid();
    st.probes[probe_idx("composed_push_two_or_more_modifications")] += COMPOSED_PUSHES.with(|c| c.get());
    (ExecOut { violation, stats: st, drawn: drawn_priorities() }, ops_done)
}

// ---------------------------------------------------------------------------------------------
// minimisation

pub fn minimise(rec: &Record, class: &str, budget: usize, run: &dyn Fn(&Record) -> ExecOut) -> (Record, usize) {
    let mut best = rec.clone();
    let mut evals = 0usize;
    // wall-clock cap per violation class: minimisation is a convenience, the verdict does not
    // depend on it (long inputs in the debug profile cost a tenth of a second per candidate)
    let deadline = std::time::Instant::now() + std::time::Duration::from_secs(25);
    let still = |cand: &Record, evals: &mut usize| -> Option<Violation> {
        if *evals >= budget || std::time::Instant::now() > deadline {
            return None;
        }
        *evals += 1;
        run(cand).violation.filter(|v| v.class() == class)
    };
    loop {
        let before = (best.ops.len(), best.priorities.len());
        if let Some(v) = still(&best, &mut evals) {
            if v.op_index + 1 < best.ops.len() {
                let mut cand = best.clone();
                cand.ops.truncate(v.op_index + 1);
                if still(&cand, &mut evals).is_some() {
                    best = cand;
                }
            }
        }
        let mut i = 0;
        while i < best.ops.len() {
            let mut cand = best.clone();
            cand.ops.remove(i);
            // dropping a node-creating operation shifts the priorities of later nodes; also try
            // dropping its priority with it
            if still(&cand, &mut evals).is_some() {
                best = cand;
                continue;
            }
            i += 1;
        }
        // trim the priority list to what is drawn, then try simpler priority assignments
        let drawn = run(&best).drawn.len();
        if best.priorities.len() > drawn {
            let mut cand = best.clone();
            cand.priorities.truncate(drawn);
            if still(&cand, &mut evals).is_some() {
                best = cand;
            }
        }
        for i in 0..best.priorities.len() {
            for repl in [i as u32, 0u32] {
                if best.priorities[i] != repl {
                    let mut cand = best.clone();
                    cand.priorities[i] = repl;
                    if still(&cand, &mut evals).is_some() {
                        best = cand;
                        break;
                    }
                }
            }
        }
        // simplify arguments
        for i in 0..best.ops.len() {
            let simpler: Vec<Op> = match best.ops[i].clone() {
                Op::InsertAt { slot, pos, value } => vec![Op::InsertAt { slot: 0, pos, value }, Op::InsertAt { slot, pos: 0, value }, Op::InsertAt { slot, pos, value: (i as u64 + 1) * 10 }],
                Op::FromItem { slot, value } => vec![Op::FromItem { slot: 0, value }, Op::FromItem { slot, value: (i as u64 + 1) * 10 }],
                Op::ManualInsert { slot, pos, value, priority } => vec![Op::InsertAt { slot, pos, value }, Op::ManualInsert { slot, pos, value: (i as u64 + 1) * 10, priority }],
                Op::RangeModify { slot, l, r, a, b } => vec![Op::RangeModify { slot, l, r, a: 1, b: 1 }, Op::RangeModify { slot, l, r, a: 0, b: 7 }, Op::RangeModify { slot, l, r, a: a % 10, b: b % 10 }],
                Op::SplitMove { src, pos, dst, node_api: true } => vec![Op::SplitMove { src, pos, dst, node_api: false }],
                Op::SplitByMove { src, pos, dst, threshold, node_api: true } => vec![Op::SplitByMove { src, pos, dst, threshold, node_api: false }],
                Op::Merge { a, b, node_api: true } => vec![Op::Merge { a, b, node_api: false }],
                _ => vec![],
            };
            for c in simpler {
                if c != best.ops[i] {
                    let mut cand = best.clone();
                    cand.ops[i] = c;
                    if still(&cand, &mut evals).is_some() {
                        best = cand;
                    }
                }
            }
        }
        if (best.ops.len(), best.priorities.len()) == before || evals >= budget || std::time::Instant::now() > deadline {
            break;
        }
    }
    (best, evals)
}
