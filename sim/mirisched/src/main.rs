//! mirisched — the program that is executed under Miri's seeded scheduler (property C17), and
//! natively as the sequential reference.
//!
//! Several threads each own one treap and run a private history of node creations and treap
//! operations on the *unmodified* library.  Nothing is shared between the threads by the
//! harness (results come back through `join` only), so any data race Miri reports is in the
//! library.  The only optional extra is a Relaxed stamp counter (`--stamped`), which adds no
//! happens-before edge and is used to measure which interleaving happened.
//!
//!   mirisched --mode concurrent|serial|baton|single --threads T --hseed H --ops K [--long N]
//!             [--order 0,1,0,...] [--perm 1,0,2] [--stamped] [--main-participates] [--draws N]
//!
//! Output (stdout), one line each:
//!   T<i> PRIO p p p ...        priorities of the nodes thread i created, in creation order
//!   T<i> FUNC ok|MISMATCH ...  thread i's treap results against its own vector model
//!   T<i> STAMPS s s s ...      (stamped) global stamp of each creation
//!   SINGLE p p p ...           (mode single) the first N priorities of one thread alone

use rlib_treap::{Treap, TreapItem, TreapItemSized, TreapNode, TreePrinter};
use std::sync::atomic::{AtomicU64, AtomicUsize, Ordering};
use std::sync::Arc;

/// The item type stored in a thread's treap.  Threads use DIFFERENT item types (hence different
/// node layouts): shared state keyed on anything layout-dependent (allocation caches, pools)
/// is only exercised when the layouts differ.
trait ItemLike: TreapItem + TreapItemSized + std::fmt::Debug + Send + 'static {
    fn make(id: u32) -> Self;
    fn id(&self) -> u32;
    fn val(&self) -> i64;
    fn sum(&self) -> i64;
    /// lazily adds `d` to every element of the subtree this item is the root of
    fn attach(&mut self, d: i64);
}

struct Item {
    id: u32,
    sz: usize,
    val: i64,
    sum: i64,
    add: i64,
}
impl std::fmt::Debug for Item {
    fn fmt(&self, f: &mut std::fmt::Formatter<'_>) -> std::fmt::Result {
        write!(f, "{}", self.id)
    }
}
impl TreapItem for Item {
    fn update(&mut self, l: Option<&Self>, r: Option<&Self>) {
        self.sz = l.map(|i| i.sz).unwrap_or(0) + r.map(|i| i.sz).unwrap_or(0) + 1;
        self.sum = l.map(|i| i.sum).unwrap_or(0) + r.map(|i| i.sum).unwrap_or(0) + self.val;
    }
    fn push(&mut self, l: Option<&mut Self>, r: Option<&mut Self>) {
        if self.add != 0 {
            if let Some(l) = l {
                l.attach(self.add);
            }
            if let Some(r) = r {
                r.attach(self.add);
            }
            self.add = 0;
        }
    }
}
impl TreapItemSized for Item {
    fn size(&self) -> usize {
        self.sz
    }
}
impl ItemLike for Item {
    fn make(id: u32) -> Self {
        let val = (id % 1000) as i64;
        Item { id, sz: 1, val, sum: val, add: 0 }
    }
    fn id(&self) -> u32 {
        self.id
    }
    fn val(&self) -> i64 {
        self.val
    }
    fn sum(&self) -> i64 {
        self.sum
    }
    fn attach(&mut self, d: i64) {
        self.val += d;
        self.sum += d * self.sz as i64;
        self.add += d;
    }
}

struct BigItem {
    id: u32,
    sz: usize,
    pad: [u64; 5],
    val: i64,
    sum: i64,
    add: i64,
}
impl std::fmt::Debug for BigItem {
    fn fmt(&self, f: &mut std::fmt::Formatter<'_>) -> std::fmt::Result {
        write!(f, "#{}", self.id)
    }
}
impl TreapItem for BigItem {
    fn update(&mut self, l: Option<&Self>, r: Option<&Self>) {
        self.sz = l.map(|i| i.sz).unwrap_or(0) + r.map(|i| i.sz).unwrap_or(0) + 1;
        self.pad[0] = self.sz as u64;
        self.sum = l.map(|i| i.sum).unwrap_or(0) + r.map(|i| i.sum).unwrap_or(0) + self.val;
    }
    fn push(&mut self, l: Option<&mut Self>, r: Option<&mut Self>) {
        if self.add != 0 {
            if let Some(l) = l {
                l.attach(self.add);
            }
            if let Some(r) = r {
                r.attach(self.add);
            }
            self.add = 0;
        }
    }
}
impl TreapItemSized for BigItem {
    fn size(&self) -> usize {
        self.sz
    }
}
impl ItemLike for BigItem {
    fn make(id: u32) -> Self {
        let val = (id % 1000) as i64;
        BigItem { id, sz: 1, pad: [id as u64; 5], val, sum: val, add: 0 }
    }
    fn id(&self) -> u32 {
        self.id
    }
    fn val(&self) -> i64 {
        self.val
    }
    fn sum(&self) -> i64 {
        self.sum
    }
    fn attach(&mut self, d: i64) {
        self.val += d;
        self.sum += d * self.sz as i64;
        self.add += d;
    }
}

fn splitmix(x: &mut u64) -> u64 {
    *x = x.wrapping_add(0x9E37_79B9_7F4A_7C15);
    let mut z = *x;
    z = (z ^ (z >> 30)).wrapping_mul(0xBF58_476D_1CE4_E5B9);
    z = (z ^ (z >> 27)).wrapping_mul(0x94D0_49BB_1331_11EB);
    z ^ (z >> 31)
}

static STAMP: AtomicU64 = AtomicU64::new(0);

/// Serialises node creations in a prescribed order (native reference runs only).
struct Baton {
    order: Vec<usize>,
    turn: AtomicUsize,
}

impl Baton {
    fn acquire(&self, tid: usize) {
        loop {
            let t = self.turn.load(Ordering::Acquire);
            if t >= self.order.len() || self.order[t] == tid {
                return;
            }
            std::thread::yield_now();
        }
    }
    fn release(&self) {
        self.turn.fetch_add(1, Ordering::AcqRel);
    }
}

struct ThreadOut {
    prios: Vec<u32>,
    stamps: Vec<u64>,
    func: String,
    /// digests of the treap's Debug dump and TreePrinter dump, taken while other threads run
    prints: Vec<u64>,
}

fn fnv(s: &str) -> u64 {
    let mut h: u64 = 0xcbf2_9ce4_8422_2325;
    for b in s.bytes() {
        h ^= b as u64;
        h = h.wrapping_mul(0x0000_0100_0000_01b3);
    }
    h
}

/// Dumps the treap through both formatting paths of the library and digests the text.
fn dump<T: ItemLike>(t: &Treap<T>, out: &mut Vec<u64>) {
    out.push(fnv(&format!("{:?}", t)));
    out.push(fnv(&format!("{:?}", TreePrinter::new(t))));
}

fn find_priority<T: ItemLike>(node: &Option<Box<TreapNode<T>>>, id: u32) -> Option<u32> {
    let n = node.as_ref()?;
    if n.item.id() == id {
        return Some(n.priority);
    }
    find_priority(&n.left, id).or_else(|| find_priority(&n.right, id))
}

/// One thread's private history.  Every node-creating step creates exactly one node.
/// Thread `tid`'s history with the item type chosen by the thread index.
fn history(tid: usize, hseed: u64, ops: usize, long: usize, bulk: usize, churn: usize, stagger: usize, stamped: bool, baton: Option<&Baton>) -> ThreadOut {
    if std::thread::current().name() != Some("main") {
        arm_teardown(tid);
    }
    if tid % 2 == 1 {
        history_t::<BigItem>(tid, hseed, ops, long, bulk, churn, stagger, stamped, baton)
    } else {
        history_t::<Item>(tid, hseed, ops, long, bulk, churn, stagger, stamped, baton)
    }
}

fn history_t<T: ItemLike>(tid: usize, hseed: u64, ops: usize, long: usize, bulk: usize, churn: usize, stagger: usize, stamped: bool, baton: Option<&Baton>) -> ThreadOut {
    let mut rng = hseed ^ ((tid as u64 + 1) << 32);
    let mut t: Treap<T> = Treap::new();
    let mut model: Vec<u32> = Vec::new();
    // current value of every element by id (range additions are applied eagerly here)
    let mut vals: std::collections::BTreeMap<u32, i64> = std::collections::BTreeMap::new();
    let val_of = |vals: &std::collections::BTreeMap<u32, i64>, id: u32| vals.get(&id).copied().unwrap_or((id % 1000) as i64);
    let mut out = ThreadOut { prios: Vec::new(), stamps: Vec::new(), func: String::new(), prints: Vec::new() };
    // optional staggered start: some threads begin a few scheduling points later
    for _ in 0..stagger * tid {
        std::thread::yield_now();
    }
    let mut next_id = (tid as u32) * 100_000 + 1;
    let mut mismatch: Option<String> = None;
    // optional long prefix of bare node creations: anything that happens only every N draws
    // (periodic re-seeding, batched statistics, block reservations) needs many draws per thread
    for _ in 0..long {
        if let Some(b) = baton {
            b.acquire(tid);
        }
        let node = TreapNode::new(T::make(next_id));
        next_id += 1;
        if stamped {
            out.stamps.push(STAMP.fetch_add(1, Ordering::Relaxed));
        }
        if let Some(b) = baton {
            b.release();
        }
        out.prios.push(node.priority);
    }
    // optional bulk phase: a treap of `bulk` elements built by appends, then dumped through the
    // library's Debug / TreePrinter paths while the other threads do the same
    for _ in 0..bulk {
        let id = next_id;
        next_id += 1;
        if let Some(b) = baton {
            b.acquire(tid);
        }
        // append through from_item + merge: the new node's priority is readable in O(1)
        let single = Treap::from_item(T::make(id));
        let prio = single.root.as_ref().map(|n| n.priority).expect("from_item root");
        t = Treap::merge(std::mem::replace(&mut t, Treap::new()), single);
        model.push(id);
        if stamped {
            out.stamps.push(STAMP.fetch_add(1, Ordering::Relaxed));
        }
        if let Some(b) = baton {
            b.release();
        }
        out.prios.push(prio);
    }
    if bulk > 0 {
        dump(&t, &mut out.prints);
    }
    for step in 0..ops {
        let r = splitmix(&mut rng);
        let len = model.len();
        let creating = matches!(r % 10, 0..=5) || len == 0;
        if creating {
            let id = next_id;
            next_id += 1;
            if let Some(b) = baton {
                b.acquire(tid);
            }
            let prio;
            match (r / 10) % 3 {
                0 => {
                    // explicit node, inserted with public split_at + merge
                    let node = TreapNode::new(T::make(id));
                    prio = node.priority;
                    let pos = ((r / 100) as usize) % (len + 1);
                    let (l, rr) = std::mem::replace(&mut t, Treap::new()).split_at(pos);
                    t = Treap::merge(Treap::merge(l, Treap { root: Some(Box::new(node)) }), rr);
                    model.insert(pos, id);
                }
                1 => {
                    let pos = ((r / 100) as usize) % (len + 1);
                    t.insert_at(pos, T::make(id));
                    model.insert(pos, id);
                    prio = find_priority(&t.root, id).expect("new node not found");
                }
                _ => {
                    let single = Treap::from_item(T::make(id));
                    prio = single.root.as_ref().map(|n| n.priority).expect("from_item root");
                    t = Treap::merge(std::mem::replace(&mut t, Treap::new()), single);
                    model.push(id);
                }
            }
            if stamped {
                out.stamps.push(STAMP.fetch_add(1, Ordering::Relaxed));
            }
            if let Some(b) = baton {
                b.release();
            }
            out.prios.push(prio);
        } else {
            match r % 10 {
                6 => {
                    let pos = ((r / 100) as usize) % len;
                    let removed = t.remove_at(pos);
                    let (got, gv) = (removed.id(), removed.val());
                    let want = model.remove(pos);
                    if (got != want || gv != val_of(&vals, want)) && mismatch.is_none() {
                        mismatch = Some(format!("step {}: remove_at({}) gave {} (value {}) expected {} (value {})", step, pos, got, gv, want, val_of(&vals, want)));
                    }
                }
                7 if (r / 10) % 2 == 0 => {
                    let pos = ((r / 100) as usize) % (len + 1);
                    let (l, rr) = std::mem::replace(&mut t, Treap::new()).split_at(pos);
                    t = Treap::merge(rr, l);
                    model.rotate_left(pos);
                }
                7 => {
                    // the same rotation through split_by with an identity-prefix predicate
                    let pos = ((r / 100) as usize) % (len + 1);
                    let prefix: Vec<u32> = model[..pos].to_vec();
                    let (l, rr) = std::mem::replace(&mut t, Treap::new()).split_by(|it| prefix.contains(&it.id()));
                    if l.size() != pos && mismatch.is_none() {
                        mismatch = Some(format!("step {}: split_by left size {} expected {}", step, l.size(), pos));
                    }
                    t = Treap::merge(rr, l);
                    model.rotate_left(pos);
                }
                8 => {
                    let (f, l) = (t.first().map(|i| i.id()), t.last().map(|i| i.id()));
                    if (f, l) != (model.first().copied(), model.last().copied()) && mismatch.is_none() {
                        mismatch = Some(format!("step {}: first/last {:?}/{:?}", step, f, l));
                    }
                }
                9 if (r / 10) % 4 == 0 => {
                    // drop the whole treap and start over (node deallocation in the middle of
                    // the other threads' activity)
                    t = Treap::new();
                    model.clear();
                    if !t.is_empty() && mismatch.is_none() {
                        mismatch = Some(format!("step {}: fresh treap not empty", step));
                    }
                }
                9 if (r / 10) % 4 != 3 => {
                    // lazy range addition / range sum on [lo, hi]: split out, touch the root, merge back
                    let (a, b) = (((r / 100) as usize) % len, ((r / 100_000) as usize) % len);
                    let (lo, hi) = (a.min(b), a.max(b));
                    let (left, rest) = std::mem::replace(&mut t, Treap::new()).split_at(lo);
                    let (mut mid, right) = rest.split_at(hi + 1 - lo);
                    if (r / 10) % 4 == 1 {
                        let d = ((r >> 40) % 19) as i64 - 9;
                        if let Some(root) = mid.root_mut() {
                            root.attach(d);
                        }
                        for id in &model[lo..=hi] {
                            let v = val_of(&vals, *id) + d;
                            vals.insert(*id, v);
                        }
                    } else {
                        let want: i64 = model[lo..=hi].iter().map(|id| val_of(&vals, *id)).sum();
                        let got = mid.root().map(|i| i.sum()).unwrap_or(0);
                        if (got != want || mid.size() != hi + 1 - lo) && mismatch.is_none() {
                            mismatch = Some(format!("step {}: sum of [{}, {}] is {} (size {}) expected {}", step, lo, hi, got, mid.size(), want));
                        }
                    }
                    t = Treap::merge(Treap::merge(left, mid), right);
                }
                _ => {
                    if t.size() != model.len() && mismatch.is_none() {
                        mismatch = Some(format!("step {}: size {} expected {}", step, t.size(), model.len()));
                    }
                }
            }
        }
    }
    // optional churn phase: remove one element, insert a new one, many times over - node
    // allocations are freed and made at a high rate on every thread at once
    for round in 0..churn {
        if model.is_empty() {
            break;
        }
        let r = splitmix(&mut rng);
        let pos = (r as usize) % model.len();
        let got = t.remove_at(pos).id();
        let want = model.remove(pos);
        if got != want && mismatch.is_none() {
            mismatch = Some(format!("churn {}: remove_at({}) gave {} expected {}", round, pos, got, want));
        }
        let id = next_id;
        next_id += 1;
        let ipos = ((r >> 20) as usize) % (model.len() + 1);
        if let Some(b) = baton {
            b.acquire(tid);
        }
        t.insert_at(ipos, T::make(id));
        model.insert(ipos, id);
        let prio = find_priority(&t.root, id).expect("new node not found");
        if stamped {
            out.stamps.push(STAMP.fetch_add(1, Ordering::Relaxed));
        }
        if let Some(b) = baton {
            b.release();
        }
        out.prios.push(prio);
    }
    if bulk > 0 {
        dump(&t, &mut out.prints);
    }
    let got: Vec<(u32, i64)> = t.collect().into_iter().map(|i| (i.id(), i.val())).collect();
    let want: Vec<(u32, i64)> = model.iter().map(|id| (*id, val_of(&vals, *id))).collect();
    if got != want && mismatch.is_none() {
        mismatch = Some(format!("final collect {:?} expected {:?}", got, want));
    }
    out.func = match mismatch {
        None => format!("ok {} elements", model.len()),
        Some(m) => format!("MISMATCH {}", m),
    };
    out
}

fn arg(args: &[String], name: &str) -> Option<String> {
    args.iter().position(|a| a == name).and_then(|i| args.get(i + 1)).cloned()
}

fn list(s: &str) -> Vec<usize> {
    s.split(',').filter(|x| !x.is_empty()).map(|x| x.parse().expect("bad list")).collect()
}

/// `--teardown K`: every spawned thread owns a thread-local whose destructor creates K more nodes
/// while the thread is being torn down (a flush-on-exit buffer, a sentinel inserted on exit).  It
/// is initialised before the thread's first node, so it is destroyed after any thread-local of the
/// library.  The priorities drawn there are appended to the thread's stream.
static TEARDOWN: AtomicUsize = AtomicUsize::new(0);
static LATE_OUT: std::sync::Mutex<Vec<(usize, Vec<u32>)>> = std::sync::Mutex::new(Vec::new());
/// baton mode: the teardown draws obey the prescribed global creation order as well
static GLOBAL_BATON: std::sync::OnceLock<Arc<Baton>> = std::sync::OnceLock::new();

struct Late {
    tid: usize,
    k: usize,
}
impl Drop for Late {
    fn drop(&mut self) {
        let mut ps = Vec::with_capacity(self.k);
        for j in 0..self.k {
            if let Some(b) = GLOBAL_BATON.get() {
                b.acquire(self.tid);
            }
            ps.push(TreapNode::new(Item::make(900_000 + j as u32)).priority);
            if let Some(b) = GLOBAL_BATON.get() {
                b.release();
            }
        }
        if let Ok(mut out) = LATE_OUT.lock() {
            out.push((self.tid, ps));
        }
    }
}
thread_local! {
    static LATE: std::cell::RefCell<Option<Late>> = const { std::cell::RefCell::new(None) };
}
fn arm_teardown(tid: usize) {
    let k = TEARDOWN.load(Ordering::Relaxed);
    if k > 0 {
        LATE.with(|l| *l.borrow_mut() = Some(Late { tid, k }));
    }
}

fn print_out(tid: usize, o: &ThreadOut, stamped: bool) {
    let mut prios: Vec<u32> = o.prios.clone();
    if let Ok(late) = LATE_OUT.lock() {
        for (t, ps) in late.iter() {
            if *t == tid {
                prios.extend_from_slice(ps);
            }
        }
    }
    let o = &ThreadOut { prios, stamps: o.stamps.clone(), func: o.func.clone(), prints: o.prints.clone() };
    println!("T{} PRIO {}", tid, o.prios.iter().map(|p| p.to_string()).collect::<Vec<_>>().join(" "));
    println!("T{} FUNC {}", tid, o.func);
    println!("T{} PRINT {}", tid, o.prints.iter().map(|p| format!("{:016x}", p)).collect::<Vec<_>>().join(" "));
    if stamped {
        println!("T{} STAMPS {}", tid, o.stamps.iter().map(|p| p.to_string()).collect::<Vec<_>>().join(" "));
    }
}

fn main() {
    let args: Vec<String> = std::env::args().collect();
    let mode = arg(&args, "--mode").unwrap_or_else(|| "concurrent".into());
    let threads: usize = arg(&args, "--threads").and_then(|s| s.parse().ok()).unwrap_or(2);
    let hseed: u64 = arg(&args, "--hseed").and_then(|s| s.parse().ok()).unwrap_or(1);
    let ops: usize = arg(&args, "--ops").and_then(|s| s.parse().ok()).unwrap_or(10);
    let long: usize = arg(&args, "--long").and_then(|s| s.parse().ok()).unwrap_or(0);
    let bulk: usize = arg(&args, "--bulk").and_then(|s| s.parse().ok()).unwrap_or(0);
    let churn: usize = arg(&args, "--churn").and_then(|s| s.parse().ok()).unwrap_or(0);
    let stagger: usize = arg(&args, "--stagger").and_then(|s| s.parse().ok()).unwrap_or(0);
    let stamped = args.iter().any(|a| a == "--stamped");
    let main_participates = args.iter().any(|a| a == "--main-participates");
    let barrier = args.iter().any(|a| a == "--barrier");
    TEARDOWN.store(arg(&args, "--teardown").and_then(|s| s.parse().ok()).unwrap_or(0), Ordering::Relaxed);

    match mode.as_str() {
        "single" => {
            // the stream one thread sees when nothing else draws
            let n: usize = arg(&args, "--draws").and_then(|s| s.parse().ok()).unwrap_or(64);
            let h = std::thread::spawn(move || (0..n).map(|_| TreapNode::new(0u8).priority.to_string()).collect::<Vec<_>>().join(" "));
            println!("SINGLE {}", h.join().unwrap());
        }
        "serial" => {
            // threads one after the other, in the given permutation; each still on its own thread
            let perm = arg(&args, "--perm").map(|s| list(&s)).unwrap_or_else(|| (0..threads).collect());
            let mut outs: Vec<Option<ThreadOut>> = (0..threads).map(|_| None).collect();
            // when the concurrent program let the main thread take part as thread 0, the
            // sequential reference does the same: all worker threads are spawned first (in index
            // order, as the concurrent program does, so that anything tied to spawn order or
            // thread identity is reproduced) and park until it is their turn
            if main_participates {
                let turn = Arc::new(AtomicUsize::new(0));
                let hs: Vec<_> = (1..threads)
                    .map(|tid| {
                        let turn = turn.clone();
                        let slot = perm.iter().position(|t| *t == tid).expect("perm must name every thread");
                        std::thread::spawn(move || {
                            while turn.load(Ordering::Acquire) != slot {
                                std::thread::yield_now();
                            }
                            let o = history(tid, hseed, ops, long, bulk, churn, 0, stamped, None);
                            turn.store(slot + 1, Ordering::Release);
                            o
                        })
                    })
                    .collect();
                let slot0 = perm.iter().position(|t| *t == 0).expect("perm must name every thread");
                while turn.load(Ordering::Acquire) != slot0 {
                    std::thread::yield_now();
                }
                outs[0] = Some(history(0, hseed, ops, long, bulk, churn, 0, stamped, None));
                turn.store(slot0 + 1, Ordering::Release);
                for (i, h) in hs.into_iter().enumerate() {
                    outs[i + 1] = Some(h.join().unwrap());
                }
            } else {
                for &tid in &perm {
                    let h = std::thread::spawn(move || history(tid, hseed, ops, long, bulk, churn, stagger, stamped, None));
                    outs[tid] = Some(h.join().unwrap());
                }
            }
            for (tid, o) in outs.iter().enumerate() {
                print_out(tid, o.as_ref().expect("perm must name every thread"), stamped);
            }
        }
        "baton" => {
            // concurrent threads, but node creations serialised in the prescribed global order
            let order = list(&arg(&args, "--order").expect("--order"));
            let baton = Arc::new(Baton { order, turn: AtomicUsize::new(0) });
            let _ = GLOBAL_BATON.set(baton.clone());
            let first = if main_participates { 1 } else { 0 };
            let hs: Vec<_> = (first..threads)
                .map(|tid| {
                    let b = baton.clone();
                    std::thread::spawn(move || history(tid, hseed, ops, long, bulk, churn, 0, stamped, Some(&b)))
                })
                .collect();
            let mut outs: Vec<ThreadOut> = Vec::new();
            if main_participates {
                outs.push(history(0, hseed, ops, long, bulk, churn, 0, stamped, Some(&baton)));
            }
            for h in hs {
                outs.push(h.join().unwrap());
            }
            for (tid, o) in outs.iter().enumerate() {
                print_out(tid, o, stamped);
            }
        }
        _ => {
            // concurrent: the schedule is whatever the (Miri) scheduler decides
            let first = if main_participates { 1 } else { 0 };
            // optional start barrier: all participants are released together, so their FIRST draws
            // happen close to each other (once-per-process windows need that); it only adds a
            // happens-before edge at the very start
            let gate = if barrier { Some(Arc::new(std::sync::Barrier::new(threads))) } else { None };
            let hs: Vec<_> = (first..threads)
                .map(|tid| {
                    let gate = gate.clone();
                    std::thread::spawn(move || {
                        if let Some(g) = &gate {
                            g.wait();
                        }
                        history(tid, hseed, ops, long, bulk, churn, stagger, stamped, None)
                    })
                })
                .collect();
            let mut outs: Vec<ThreadOut> = Vec::new();
            if main_participates {
                if let Some(g) = &gate {
                    g.wait();
                }
                outs.push(history(0, hseed, ops, long, bulk, churn, stagger, stamped, None));
            }
            for h in hs {
                outs.push(h.join().unwrap());
            }
            for (tid, o) in outs.iter().enumerate() {
                print_out(tid, o, stamped);
            }
        }
    }
}
