//! xoshiro256** seeded through splitmix64.  The only source of randomness in the simulators.

#[inline]
pub fn splitmix64(x: u64) -> u64 {
    let mut z = x.wrapping_add(0x9E37_79B9_7F4A_7C15);
    z = (z ^ (z >> 30)).wrapping_mul(0xBF58_476D_1CE4_E5B9);
    z = (z ^ (z >> 27)).wrapping_mul(0x94D0_49BB_1331_11EB);
    z ^ (z >> 31)
}

#[derive(Clone)]
pub struct Rng {
    s: [u64; 4],
}

impl Rng {
    pub fn new(seed: u64) -> Self {
        let mut x = seed;
        let mut s = [0u64; 4];
        for v in s.iter_mut() {
            x = x.wrapping_add(0x9E37_79B9_7F4A_7C15);
            *v = splitmix64(x);
        }
        Rng { s }
    }

    #[inline]
    pub fn next_u64(&mut self) -> u64 {
        let result = self.s[1].wrapping_mul(5).rotate_left(7).wrapping_mul(9);
        let t = self.s[1] << 17;
        self.s[2] ^= self.s[0];
        self.s[3] ^= self.s[1];
        self.s[1] ^= self.s[2];
        self.s[0] ^= self.s[3];
        self.s[2] ^= t;
        self.s[3] = self.s[3].rotate_left(45);
        result
    }

    /// Uniform in 0..n (n > 0).  Modulo bias is irrelevant for search purposes.
    #[inline]
    pub fn below(&mut self, n: u64) -> u64 {
        debug_assert!(n > 0);
        ((self.next_u64() as u128 * n as u128) >> 64) as u64
    }

    #[inline]
    pub fn usize_below(&mut self, n: usize) -> usize {
        self.below(n as u64) as usize
    }

    /// Uniform in lo..=hi.
    #[inline]
    pub fn range(&mut self, lo: u64, hi: u64) -> u64 {
        lo + self.below(hi - lo + 1)
    }

    #[inline]
    pub fn urange(&mut self, lo: usize, hi: usize) -> usize {
        self.range(lo as u64, hi as u64) as usize
    }

    /// True with probability num/den.
    #[inline]
    pub fn chance(&mut self, num: u64, den: u64) -> bool {
        self.below(den) < num
    }

    #[inline]
    pub fn pick<'a, T>(&mut self, xs: &'a [T]) -> &'a T {
        &xs[self.usize_below(xs.len())]
    }

    /// Index drawn according to integer weights.
    pub fn weighted(&mut self, weights: &[u32]) -> usize {
        let total: u64 = weights.iter().map(|w| *w as u64).sum();
        let mut r = self.below(total.max(1));
        for (i, w) in weights.iter().enumerate() {
            if r < *w as u64 {
                return i;
            }
            r -= *w as u64;
        }
        weights.len() - 1
    }

    pub fn next_u128(&mut self) -> u128 {
        ((self.next_u64() as u128) << 64) | self.next_u64() as u128
    }
}
