//! Deterministic parallel-for over run indices.  Workers only partition the index range
//! (index i goes to worker i mod W in blocks); every run is a pure function of its own seed,
//! and the per-worker accumulators are merged in worker order with order-independent
//! operations (sums, set unions, "violation with the smallest run index wins"), so the result
//! does not depend on the worker count or on thread timing.

use std::sync::atomic::{AtomicU64, Ordering};
use std::sync::Arc;

pub fn workers_from_env() -> usize {
    std::env::var("VERIF_WORKERS")
        .ok()
        .and_then(|s| s.parse::<usize>().ok())
        .filter(|n| *n > 0)
        .unwrap_or_else(|| std::thread::available_parallelism().map(|n| n.get()).unwrap_or(4).min(16))
}

/// Runs `body(worker_state, index)` for every index in 0..n.  `make` creates one accumulator per
/// worker; the accumulators are returned in worker order.  `stop_after` (shared, monotone
/// decreasing) lets a worker that found a violation at index i tell the others not to
/// bother with indices above i: all indices below the smallest violating index are still
/// executed, so the reported first violation is independent of timing.
pub fn par_for<S: Send + 'static>(
    n: u64,
    workers: usize,
    make: impl Fn(usize) -> S + Send + Sync + 'static,
    body: impl Fn(&mut S, u64, &Cutoff) + Send + Sync + 'static,
) -> Vec<S> {
    let cutoff = Cutoff(Arc::new(AtomicU64::new(u64::MAX)));
    let make = Arc::new(make);
    let body = Arc::new(body);
    const BLOCK: u64 = 64;
    let next = Arc::new(AtomicU64::new(0));
    let mut handles = Vec::new();
    for w in 0..workers.max(1) {
        let cutoff = cutoff.clone();
        let make = make.clone();
        let body = body.clone();
        let next = next.clone();
        handles.push(
            std::thread::Builder::new()
                .stack_size(256 << 20)
                .spawn(move || {
                    let mut st = make(w);
                    loop {
                        // dynamic block distribution: which worker executes an index varies with
                        // timing, but results are merged order-independently (see module doc).
                        let start = next.fetch_add(BLOCK, Ordering::Relaxed);
                        if start >= n {
                            break;
                        }
                        for i in start..(start + BLOCK).min(n) {
                            if i > cutoff.get() {
                                break;
                            }
                            body(&mut st, i, &cutoff);
                        }
                    }
                    st
                })
                .expect("spawn worker"),
        );
    }
    handles.into_iter().map(|h| h.join().expect("worker panicked (harness bug)")).collect()
}

#[derive(Clone)]
pub struct Cutoff(Arc<AtomicU64>);

impl Cutoff {
    pub fn get(&self) -> u64 {
        self.0.load(Ordering::Relaxed)
    }
    /// Records that index `i` violated: indices above it need not run.
    pub fn lower_to(&self, i: u64) {
        self.0.fetch_min(i, Ordering::Relaxed);
    }
}
