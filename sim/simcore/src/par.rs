//! Deterministic parallel-for over run indices, with containment for code under test that
//! hangs or kills the process.
//!
//! Workers only partition the index range; every run is a pure function of its own seed, and
//! the per-worker accumulators are merged with order-independent operations (sums, set unions,
//! "violation with the smallest run index wins"), so the result does not depend on the worker
//! count or on thread timing.
//!
//! Containment (never part of a simulation decision):
//! * a watchdog thread notices a run that has been executing for longer than
//!   `VERIF_HANG_SECS` (default 30) wall-clock seconds, prints `SIM-HANG index=<i>` on stderr
//!   and exits the process with status 3 — the orchestrator turns that into a replayable
//!   by-index record;
//! * with `VERIF_PROGRESS_FILE=<path>` every worker records the index it is about to execute in
//!   `<path>.<worker>`, so that after an abort (double panic, stack overflow) the orchestrator
//!   can find the culprit among at most one candidate per worker.

use std::io::{Seek, SeekFrom, Write};
use std::sync::atomic::{AtomicBool, AtomicU64, Ordering};
use std::sync::Arc;
use std::time::{Duration, Instant};

pub fn workers_from_env() -> usize {
    std::env::var("VERIF_WORKERS")
        .ok()
        .and_then(|s| s.parse::<usize>().ok())
        .filter(|n| *n > 0)
        .unwrap_or_else(|| std::thread::available_parallelism().map(|n| n.get()).unwrap_or(4).min(16))
}

pub fn hang_limit() -> Duration {
    Duration::from_secs(std::env::var("VERIF_HANG_SECS").ok().and_then(|s| s.parse().ok()).unwrap_or(30))
}

const IDLE: u64 = u64::MAX;

/// Runs `body(worker_state, index, cutoff)` for every index in 0..n.  `make` creates one
/// accumulator per worker; the accumulators are returned in worker order.  `Cutoff` (shared,
/// monotone decreasing) lets a worker that found a violation at index i tell the others not to
/// bother with indices far above i: all indices up to the final cutoff are always executed, so
/// the reported first violation is independent of timing.
pub fn par_for<S: Send + 'static>(
    n: u64,
    workers: usize,
    make: impl Fn(usize) -> S + Send + Sync + 'static,
    body: impl Fn(&mut S, u64, &Cutoff) + Send + Sync + 'static,
) -> Vec<S> {
    let workers = workers.max(1);
    let cutoff = Cutoff(Arc::new(AtomicU64::new(u64::MAX)));
    let make = Arc::new(make);
    let body = Arc::new(body);
    const BLOCK: u64 = 64;
    let next = Arc::new(AtomicU64::new(0));
    let current: Arc<Vec<AtomicU64>> = Arc::new((0..workers).map(|_| AtomicU64::new(IDLE)).collect());
    let since_ms: Arc<Vec<AtomicU64>> = Arc::new((0..workers).map(|_| AtomicU64::new(0)).collect());
    let done = Arc::new(AtomicBool::new(false));
    let t0 = Instant::now();
    let progress = std::env::var("VERIF_PROGRESS_FILE").ok();

    // watchdog
    let wd = {
        let (current, since_ms, done) = (current.clone(), since_ms.clone(), done.clone());
        let limit = hang_limit();
        std::thread::spawn(move || {
            while !done.load(Ordering::Relaxed) {
                std::thread::sleep(Duration::from_millis(200));
                let now = t0.elapsed().as_millis() as u64;
                for w in 0..current.len() {
                    let idx = current[w].load(Ordering::Relaxed);
                    let since = since_ms[w].load(Ordering::Relaxed);
                    if idx != IDLE && now.saturating_sub(since) > limit.as_millis() as u64 && current[w].load(Ordering::Relaxed) == idx {
                        eprintln!("SIM-HANG index={} (run has been executing for more than {} s)", idx, limit.as_secs());
                        std::process::exit(3);
                    }
                }
            }
        })
    };

    let mut handles = Vec::new();
    for w in 0..workers {
        let cutoff = cutoff.clone();
        let make = make.clone();
        let body = body.clone();
        let next = next.clone();
        let (current, since_ms) = (current.clone(), since_ms.clone());
        let progress = progress.clone();
        handles.push(
            std::thread::Builder::new()
                .stack_size(256 << 20)
                .spawn(move || {
                    let mut st = make(w);
                    let mut pf = progress.and_then(|p| std::fs::File::create(format!("{}.{}", p, w)).ok());
                    loop {
                        // dynamic block distribution: which worker executes an index varies with
                        // timing, but results are merged order-independently (see module doc)
                        let start = next.fetch_add(BLOCK, Ordering::Relaxed);
                        if start >= n {
                            break;
                        }
                        for i in start..(start + BLOCK).min(n) {
                            if i > cutoff.get() {
                                break;
                            }
                            if let Some(f) = pf.as_mut() {
                                let _ = f.seek(SeekFrom::Start(0));
                                let _ = f.write_all(format!("{:<20}\n", i).as_bytes());
                            }
                            since_ms[w].store(t0.elapsed().as_millis() as u64, Ordering::Relaxed);
                            current[w].store(i, Ordering::Relaxed);
                            body(&mut st, i, &cutoff);
                            current[w].store(IDLE, Ordering::Relaxed);
                        }
                    }
                    st
                })
                .expect("spawn worker"),
        );
    }
    let out: Vec<S> = handles.into_iter().map(|h| h.join().expect("worker panicked (harness bug)")).collect();
    done.store(true, Ordering::Relaxed);
    let _ = wd.join();
    out
}

#[derive(Clone)]
pub struct Cutoff(Arc<AtomicU64>);

impl Cutoff {
    pub fn get(&self) -> u64 {
        self.0.load(Ordering::Relaxed)
    }
    /// Records that indices above `i` need not run.
    pub fn lower_to(&self, i: u64) {
        self.0.fetch_min(i, Ordering::Relaxed);
    }
}

/// Runs `f` on a fresh thread with a big stack and waits at most `limit`; None = it did not
/// finish (the thread is left behind; callers exit the process right after reporting).
pub fn with_timeout<T: Send + 'static>(limit: Duration, f: impl FnOnce() -> T + Send + 'static) -> Option<T> {
    let (tx, rx) = std::sync::mpsc::channel();
    std::thread::Builder::new()
        .stack_size(1 << 30)
        .spawn(move || {
            let _ = tx.send(f());
        })
        .expect("spawn");
    rx.recv_timeout(limit).ok()
}
