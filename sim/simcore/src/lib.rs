//! Shared plumbing of the simulators: a seedable PRNG, a tiny JSON value type with parser and
//! printer (run records and evidence fragments), stable hashing, and a deterministic
//! parallel-for over run indices.  No external crates; nothing here reads a clock or
//! iterates a randomised hash map in a decision or logging path.

pub mod json;
pub mod par;
pub mod rng;

pub use json::Json;
pub use rng::Rng;

/// Default value of VERIF_SEED: a fixed constant, so the unchanged tree is always checked on
/// the same (known clean) sample.
pub const DEFAULT_SEED: u64 = 20261002;

pub fn verif_seed() -> u64 {
    match std::env::var("VERIF_SEED") {
        Ok(s) => s.trim().parse::<u64>().unwrap_or_else(|_| {
            // accept negative / huge integers too: fold them deterministically
            fnv1a(s.trim().as_bytes())
        }),
        Err(_) => DEFAULT_SEED,
    }
}

/// Seed of run `index` under master seed `master`.
pub fn run_seed(master: u64, index: u64) -> u64 {
    rng::splitmix64(master ^ index.wrapping_mul(0x9E37_79B9_7F4A_7C15))
}

pub fn fnv1a(bytes: &[u8]) -> u64 {
    let mut h: u64 = 0xcbf2_9ce4_8422_2325;
    for &b in bytes {
        h ^= b as u64;
        h = h.wrapping_mul(0x0000_0100_0000_01b3);
    }
    h
}

/// Incremental stable hasher (FNV-1a over fed words), used for interleaving / state digests.
#[derive(Clone, Copy)]
pub struct Digest(pub u64);

impl Default for Digest {
    fn default() -> Self {
        Digest(0xcbf2_9ce4_8422_2325)
    }
}

impl Digest {
    pub fn new() -> Self {
        Self::default()
    }
    #[inline]
    pub fn byte(&mut self, b: u8) {
        self.0 ^= b as u64;
        self.0 = self.0.wrapping_mul(0x0000_0100_0000_01b3);
    }
    #[inline]
    pub fn word(&mut self, w: u64) {
        for i in 0..8 {
            self.byte((w >> (8 * i)) as u8);
        }
    }
    pub fn bytes(&mut self, bs: &[u8]) {
        for &b in bs {
            self.byte(b);
        }
        self.byte(0xff);
    }
    pub fn finish(&self) -> u64 {
        // final avalanche so that low bits are usable
        rng::splitmix64(self.0)
    }
}

/// Named counters kept in insertion order (deterministic output).
#[derive(Clone, Default)]
pub struct Counters {
    pub names: Vec<&'static str>,
    pub values: Vec<u64>,
}

impl Counters {
    pub fn with_names(names: &[&'static str]) -> Self {
        Counters { names: names.to_vec(), values: vec![0; names.len()] }
    }
    #[inline]
    pub fn hit(&mut self, idx: usize) {
        self.values[idx] += 1;
    }
    #[inline]
    pub fn add(&mut self, idx: usize, n: u64) {
        self.values[idx] += n;
    }
    pub fn merge(&mut self, other: &Counters) {
        if self.names.is_empty() {
            *self = other.clone();
            return;
        }
        for (a, b) in self.values.iter_mut().zip(other.values.iter()) {
            *a += *b;
        }
    }
    pub fn to_json(&self) -> Json {
        Json::Obj(self.names.iter().zip(self.values.iter()).map(|(n, v)| (n.to_string(), Json::Num(*v as i128))).collect())
    }
    pub fn zeros(&self) -> Vec<String> {
        self.names.iter().zip(self.values.iter()).filter(|(_, v)| **v == 0).map(|(n, _)| n.to_string()).collect()
    }
}

/// Escapes arbitrary bytes into a printable ASCII string (used in records and messages):
/// printable ASCII except backslash stays, the rest becomes \n \r \t \\ or \xHH.
pub fn escape_bytes(bs: &[u8]) -> String {
    let mut s = String::with_capacity(bs.len() + 8);
    for &b in bs {
        match b {
            b'\n' => s.push_str("\\n"),
            b'\r' => s.push_str("\\r"),
            b'\t' => s.push_str("\\t"),
            b'\\' => s.push_str("\\\\"),
            0x20..=0x7e => s.push(b as char),
            _ => s.push_str(&format!("\\x{:02x}", b)),
        }
    }
    s
}

pub fn unescape_bytes(s: &str) -> Vec<u8> {
    let b = s.as_bytes();
    let mut out = Vec::with_capacity(b.len());
    let mut i = 0;
    while i < b.len() {
        if b[i] == b'\\' && i + 1 < b.len() {
            match b[i + 1] {
                b'n' => {
                    out.push(b'\n');
                    i += 2;
                }
                b'r' => {
                    out.push(b'\r');
                    i += 2;
                }
                b't' => {
                    out.push(b'\t');
                    i += 2;
                }
                b'\\' => {
                    out.push(b'\\');
                    i += 2;
                }
                b'x' if i + 3 < b.len() => {
                    let h = std::str::from_utf8(&b[i + 2..i + 4]).unwrap();
                    out.push(u8::from_str_radix(h, 16).unwrap());
                    i += 4;
                }
                _ => {
                    out.push(b[i]);
                    i += 1;
                }
            }
        } else {
            out.push(b[i]);
            i += 1;
        }
    }
    out
}

/// Installs a panic hook that prints nothing: panics of the code under test are caught with
/// catch_unwind and turned into run results; the default hook would flood stderr.
pub fn silence_panics() {
    std::panic::set_hook(Box::new(|_| {}));
}

pub fn panic_message(e: &(dyn std::any::Any + Send)) -> String {
    if let Some(s) = e.downcast_ref::<&str>() {
        s.to_string()
    } else if let Some(s) = e.downcast_ref::<String>() {
        s.clone()
    } else {
        "<non-string panic payload>".to_string()
    }
}
