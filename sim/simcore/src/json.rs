//! Minimal JSON value, printer and parser: enough for run records, replay files and evidence
//! fragments.  Objects keep insertion order (deterministic output).  Numbers are integers
//! (i128) or floats.

#[derive(Clone, Debug, PartialEq)]
pub enum Json {
    Null,
    Bool(bool),
    Num(i128),
    Float(f64),
    Str(String),
    Arr(Vec<Json>),
    Obj(Vec<(String, Json)>),
}

impl Json {
    pub fn obj() -> Json {
        Json::Obj(Vec::new())
    }
    pub fn s(x: &str) -> Json {
        Json::Str(x.to_string())
    }
    pub fn n<T: Into<i128>>(x: T) -> Json {
        Json::Num(x.into())
    }
    pub fn u(x: usize) -> Json {
        Json::Num(x as i128)
    }
    pub fn set(&mut self, k: &str, v: Json) -> &mut Json {
        if let Json::Obj(fields) = self {
            if let Some(f) = fields.iter_mut().find(|(kk, _)| kk == k) {
                f.1 = v;
            } else {
                fields.push((k.to_string(), v));
            }
        }
        self
    }
    pub fn with(mut self, k: &str, v: Json) -> Json {
        self.set(k, v);
        self
    }
    pub fn get(&self, k: &str) -> Option<&Json> {
        match self {
            Json::Obj(fields) => fields.iter().find(|(kk, _)| kk == k).map(|(_, v)| v),
            _ => None,
        }
    }
    pub fn str_of(&self, k: &str) -> Option<&str> {
        match self.get(k) {
            Some(Json::Str(s)) => Some(s),
            _ => None,
        }
    }
    pub fn num_of(&self, k: &str) -> Option<i128> {
        match self.get(k) {
            Some(Json::Num(n)) => Some(*n),
            _ => None,
        }
    }
    pub fn arr_of(&self, k: &str) -> Option<&Vec<Json>> {
        match self.get(k) {
            Some(Json::Arr(a)) => Some(a),
            _ => None,
        }
    }
    pub fn as_str(&self) -> Option<&str> {
        match self {
            Json::Str(s) => Some(s),
            _ => None,
        }
    }
    pub fn as_num(&self) -> Option<i128> {
        match self {
            Json::Num(n) => Some(*n),
            _ => None,
        }
    }
    pub fn as_arr(&self) -> Option<&Vec<Json>> {
        match self {
            Json::Arr(a) => Some(a),
            _ => None,
        }
    }

    pub fn to_string(&self) -> String {
        let mut s = String::new();
        self.write(&mut s);
        s
    }

    /// Pretty printer: one level of indentation per nesting, short arrays of scalars inline.
    pub fn pretty(&self) -> String {
        let mut s = String::new();
        self.write_pretty(&mut s, 0);
        s.push('\n');
        s
    }

    fn is_scalar(&self) -> bool {
        !matches!(self, Json::Arr(_) | Json::Obj(_))
    }

    fn write_pretty(&self, out: &mut String, ind: usize) {
        match self {
            Json::Arr(a) if !a.is_empty() && !a.iter().all(|x| x.is_scalar()) => {
                out.push_str("[\n");
                for (i, x) in a.iter().enumerate() {
                    out.push_str(&" ".repeat(ind + 1));
                    x.write_pretty(out, ind + 1);
                    if i + 1 != a.len() {
                        out.push(',');
                    }
                    out.push('\n');
                }
                out.push_str(&" ".repeat(ind));
                out.push(']');
            }
            Json::Obj(f) if !f.is_empty() => {
                out.push_str("{\n");
                for (i, (k, v)) in f.iter().enumerate() {
                    out.push_str(&" ".repeat(ind + 1));
                    write_str(out, k);
                    out.push_str(": ");
                    v.write_pretty(out, ind + 1);
                    if i + 1 != f.len() {
                        out.push(',');
                    }
                    out.push('\n');
                }
                out.push_str(&" ".repeat(ind));
                out.push('}');
            }
            _ => self.write(out),
        }
    }

    fn write(&self, out: &mut String) {
        match self {
            Json::Null => out.push_str("null"),
            Json::Bool(b) => out.push_str(if *b { "true" } else { "false" }),
            Json::Num(n) => out.push_str(&n.to_string()),
            Json::Float(f) => {
                if f.is_finite() {
                    let s = format!("{}", f);
                    out.push_str(&s);
                    if !s.contains('.') && !s.contains('e') {
                        out.push_str(".0");
                    }
                } else {
                    out.push_str("null")
                }
            }
            Json::Str(s) => write_str(out, s),
            Json::Arr(a) => {
                out.push('[');
                for (i, x) in a.iter().enumerate() {
                    if i != 0 {
                        out.push_str(", ");
                    }
                    x.write(out);
                }
                out.push(']');
            }
            Json::Obj(f) => {
                out.push('{');
                for (i, (k, v)) in f.iter().enumerate() {
                    if i != 0 {
                        out.push_str(", ");
                    }
                    write_str(out, k);
                    out.push_str(": ");
                    v.write(out);
                }
                out.push('}');
            }
        }
    }

    pub fn parse(text: &str) -> Result<Json, String> {
        let mut p = Parser { b: text.as_bytes(), i: 0 };
        p.ws();
        let v = p.value()?;
        p.ws();
        if p.i != p.b.len() {
            return Err(format!("trailing characters at byte {}", p.i));
        }
        Ok(v)
    }
}

fn write_str(out: &mut String, s: &str) {
    out.push('"');
    for c in s.chars() {
        match c {
            '"' => out.push_str("\\\""),
            '\\' => out.push_str("\\\\"),
            '\n' => out.push_str("\\n"),
            '\r' => out.push_str("\\r"),
            '\t' => out.push_str("\\t"),
            c if (c as u32) < 0x20 => out.push_str(&format!("\\u{:04x}", c as u32)),
            c => out.push(c),
        }
    }
    out.push('"');
}

struct Parser<'a> {
    b: &'a [u8],
    i: usize,
}

impl<'a> Parser<'a> {
    fn ws(&mut self) {
        while self.i < self.b.len() && matches!(self.b[self.i], b' ' | b'\n' | b'\r' | b'\t') {
            self.i += 1;
        }
    }
    fn value(&mut self) -> Result<Json, String> {
        if self.i >= self.b.len() {
            return Err("unexpected end".into());
        }
        match self.b[self.i] {
            b'{' => {
                self.i += 1;
                let mut fields = Vec::new();
                self.ws();
                if self.peek() == Some(b'}') {
                    self.i += 1;
                    return Ok(Json::Obj(fields));
                }
                loop {
                    self.ws();
                    let k = self.string()?;
                    self.ws();
                    self.expect(b':')?;
                    self.ws();
                    let v = self.value()?;
                    fields.push((k, v));
                    self.ws();
                    match self.peek() {
                        Some(b',') => self.i += 1,
                        Some(b'}') => {
                            self.i += 1;
                            return Ok(Json::Obj(fields));
                        }
                        _ => return Err(format!("expected , or }} at byte {}", self.i)),
                    }
                }
            }
            b'[' => {
                self.i += 1;
                let mut items = Vec::new();
                self.ws();
                if self.peek() == Some(b']') {
                    self.i += 1;
                    return Ok(Json::Arr(items));
                }
                loop {
                    self.ws();
                    items.push(self.value()?);
                    self.ws();
                    match self.peek() {
                        Some(b',') => self.i += 1,
                        Some(b']') => {
                            self.i += 1;
                            return Ok(Json::Arr(items));
                        }
                        _ => return Err(format!("expected , or ] at byte {}", self.i)),
                    }
                }
            }
            b'"' => Ok(Json::Str(self.string()?)),
            b't' => self.lit("true", Json::Bool(true)),
            b'f' => self.lit("false", Json::Bool(false)),
            b'n' => self.lit("null", Json::Null),
            _ => self.number(),
        }
    }
    fn peek(&self) -> Option<u8> {
        self.b.get(self.i).copied()
    }
    fn expect(&mut self, c: u8) -> Result<(), String> {
        if self.peek() == Some(c) {
            self.i += 1;
            Ok(())
        } else {
            Err(format!("expected '{}' at byte {}", c as char, self.i))
        }
    }
    fn lit(&mut self, word: &str, v: Json) -> Result<Json, String> {
        if self.b[self.i..].starts_with(word.as_bytes()) {
            self.i += word.len();
            Ok(v)
        } else {
            Err(format!("bad literal at byte {}", self.i))
        }
    }
    fn number(&mut self) -> Result<Json, String> {
        let start = self.i;
        let mut float = false;
        while self.i < self.b.len() {
            match self.b[self.i] {
                b'0'..=b'9' | b'-' | b'+' => self.i += 1,
                b'.' | b'e' | b'E' => {
                    float = true;
                    self.i += 1
                }
                _ => break,
            }
        }
        let s = std::str::from_utf8(&self.b[start..self.i]).map_err(|e| e.to_string())?;
        if float {
            s.parse::<f64>().map(Json::Float).map_err(|e| format!("{} at byte {}", e, start))
        } else {
            s.parse::<i128>().map(Json::Num).map_err(|e| format!("{} at byte {}", e, start))
        }
    }
    fn string(&mut self) -> Result<String, String> {
        self.expect(b'"')?;
        let mut out: Vec<u8> = Vec::new();
        loop {
            if self.i >= self.b.len() {
                return Err("unterminated string".into());
            }
            let c = self.b[self.i];
            self.i += 1;
            match c {
                b'"' => break,
                b'\\' => {
                    let e = *self.b.get(self.i).ok_or("bad escape")?;
                    self.i += 1;
                    match e {
                        b'n' => out.push(b'\n'),
                        b'r' => out.push(b'\r'),
                        b't' => out.push(b'\t'),
                        b'b' => out.push(8),
                        b'f' => out.push(12),
                        b'/' => out.push(b'/'),
                        b'\\' => out.push(b'\\'),
                        b'"' => out.push(b'"'),
                        b'u' => {
                            let h = std::str::from_utf8(self.b.get(self.i..self.i + 4).ok_or("bad \\u")?).map_err(|e| e.to_string())?;
                            let cp = u32::from_str_radix(h, 16).map_err(|e| e.to_string())?;
                            self.i += 4;
                            let ch = char::from_u32(cp).unwrap_or('\u{fffd}');
                            let mut tmp = [0u8; 4];
                            out.extend_from_slice(ch.encode_utf8(&mut tmp).as_bytes());
                        }
                        _ => return Err(format!("bad escape at byte {}", self.i)),
                    }
                }
                c => out.push(c),
            }
        }
        String::from_utf8(out).map_err(|e| e.to_string())
    }
}

#[cfg(test)]
mod tests {
    use super::*;
    #[test]
    fn roundtrip() {
        let j = Json::obj()
            .with("a", Json::n(5))
            .with("b", Json::Arr(vec![Json::s("x\n\"y\\"), Json::Bool(true), Json::Null, Json::Float(1.5)]))
            .with("c", Json::obj().with("d", Json::Arr(vec![])));
        let t = j.to_string();
        assert_eq!(Json::parse(&t).unwrap(), j);
        assert_eq!(Json::parse(&j.pretty()).unwrap(), j);
    }
}
