/* Clock seam for code under test that reads the wall clock (nothing in the pinned tree does; a
 * change might - e.g. seeding a generator from the time).  Preloaded into real-priority treapsim
 * processes: the simulator, not the host, decides what CLOCK_REALTIME / gettimeofday / time say.
 *
 *   VERIF_CLOCK_MODE=frozen   every reading is the same instant
 *   VERIF_CLOCK_MODE=coarse   the clock advances by 10 ms every 4096 readings (a coarse tick)
 *   VERIF_CLOCK_MODE=back     as coarse, but the 64th reading jumps one hour back
 *
 * Monotonic clocks are passed through (the harness's own watchdogs use them).
 */
#define _GNU_SOURCE
#include <dlfcn.h>
#include <stdlib.h>
#include <string.h>
#include <sys/time.h>
#include <time.h>

static long long base_ns = 1790000000LL * 1000000000LL;
static unsigned long long calls = 0;

static long long now_ns(void) {
    const char *mode = getenv("VERIF_CLOCK_MODE");
    unsigned long long c = __atomic_fetch_add(&calls, 1, __ATOMIC_RELAXED);
    if (!mode || strcmp(mode, "frozen") == 0) return base_ns;
    long long t = base_ns + (long long)(c / 4096) * 10000000LL;
    if (strcmp(mode, "back") == 0 && c >= 64) t -= 3600LL * 1000000000LL;
    return t;
}

int clock_gettime(clockid_t id, struct timespec *ts) {
    if (id == CLOCK_REALTIME || id == CLOCK_REALTIME_COARSE || id == CLOCK_TAI) {
        long long t = now_ns();
        ts->tv_sec = t / 1000000000LL;
        ts->tv_nsec = t % 1000000000LL;
        return 0;
    }
    static int (*real)(clockid_t, struct timespec *) = 0;
    if (!real) real = (int (*)(clockid_t, struct timespec *))dlsym(RTLD_NEXT, "clock_gettime");
    return real(id, ts);
}

int gettimeofday(struct timeval *tv, void *tz) {
    (void)tz;
    if (tv) {
        long long t = now_ns();
        tv->tv_sec = t / 1000000000LL;
        tv->tv_usec = (t % 1000000000LL) / 1000;
    }
    return 0;
}

time_t time(time_t *out) {
    time_t t = (time_t)(now_ns() / 1000000000LL);
    if (out) *out = t;
    return t;
}
