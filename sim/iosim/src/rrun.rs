//! Reader runner: seeded search over (input, script, delivery traces), evidence accounting,
//! violation collection + minimisation, replay.

use crate::model::*;
use crate::rgen::*;
use crate::rsim::*;
use rlib_io::Reader;
use simcore::par::{par_for, workers_from_env};
use simcore::{run_seed, Counters, Digest, Json, Rng};
use std::collections::{BTreeMap, HashSet};

const SALT: u64 = 0xC08;

pub const FAULT_KINDS: &[&str] = &["short_read", "interrupted", "interrupted_burst", "scribble_unused_tail", "scribble_on_eof_call"];

struct Acc {
    runs: u64,
    skipped_empty: u64,
    execs: u64,
    read_calls: u64,
    ops: u64,
    bytes: u64,
    exhaustive_inputs: u64,
    exhaustive_execs: u64,
    by_class: [u64; 3],
    faults: Counters,
    probes: Counters,
    digests: HashSet<u64>,
    violations: BTreeMap<String, (u64, RRecord, Violation)>,
    violating_runs: u64,
    samples: Vec<Json>,
}

impl Acc {
    fn new() -> Self {
        Acc {
            runs: 0,
            skipped_empty: 0,
            execs: 0,
            read_calls: 0,
            ops: 0,
            bytes: 0,
            exhaustive_inputs: 0,
            exhaustive_execs: 0,
            by_class: [0; 3],
            faults: Counters::with_names(FAULT_KINDS),
            probes: Counters::with_names(RPROBES),
            digests: HashSet::new(),
            violations: BTreeMap::new(),
            violating_runs: 0,
            samples: Vec::new(),
        }
    }
    fn note_violation(&mut self, idx: u64, rec: RRecord, v: Violation) {
        self.violating_runs += 1;
        let class = v.class();
        match self.violations.get(&class) {
            Some((i, _, _)) if *i <= idx => {}
            _ => {
                self.violations.insert(class, (idx, rec, v));
            }
        }
    }
    fn account(&mut self, input: &[u8], trace: &Trace, out: &ExecOut, buf: usize) {
        self.execs += 1;
        self.read_calls += out.log.calls as u64;
        self.ops += out.results.len() as u64;
        self.bytes += input.len() as u64;
        self.faults.add(0, out.log.cuts.len() as u64);
        self.faults.add(1, out.log.intr_at.len() as u64);
        if out.log.max_burst >= 2 {
            self.faults.hit(2);
        }
        self.faults.add(3, out.log.scribbles as u64);
        if trace.eof_scribble.is_some() && out.log.eof_calls > 0 && out.log.scribbles > 0 {
            self.faults.hit(4);
        }
        let probes = &mut self.probes;
        delivery_probes(input, trace, out, buf, &mut |n| probes.hit(probe_index(n)));
        if nontrivial(out) {
            self.digests.insert(interleaving_digest(input, out));
        }
    }
}

/// The Reader's buffer size, measured black-box (the library is built exactly as shipped, without
/// its `verif` feature): the length of the slice the first read call is offered.  Only used for
/// aiming inputs at the buffer boundary; no oracle depends on it.
pub fn buf_size() -> usize {
    static SIZE: std::sync::OnceLock<usize> = std::sync::OnceLock::new();
    *SIZE.get_or_init(|| {
        struct Probe(std::rc::Rc<std::cell::Cell<usize>>);
        impl std::io::Read for Probe {
            fn read(&mut self, buf: &mut [u8]) -> std::io::Result<usize> {
                if self.0.get() == 0 {
                    self.0.set(buf.len());
                }
                Ok(0)
            }
        }
        let seen = std::rc::Rc::new(std::cell::Cell::new(0usize));
        let probe = Probe(seen.clone());
        let measured = std::panic::catch_unwind(std::panic::AssertUnwindSafe(move || {
            let mut r = Reader::new(Box::new(probe));
            let _ = r.is_eof();
        }));
        let n = seen.get();
        if measured.is_ok() && (64..=(1 << 24)).contains(&n) {
            n
        } else {
            1 << 16
        }
    })
}

fn class_of(idx: u64, runs: u64, long: u64) -> SizeClass {
    // the last `long` indices are long runs; among the others tiny and short alternate 2:3
    if idx >= runs {
        let _ = long;
        SizeClass::Long
    } else if idx % 5 < 2 {
        SizeClass::Tiny
    } else {
        SizeClass::Short
    }
}

/// Builds run `idx` completely from its seed.  Pure function of (master, idx, runs).
fn build_run(master: u64, idx: u64, runs: u64, long: u64, buf: usize) -> (RRecord, SizeClass, bool) {
    let mut rng = Rng::new(run_seed(master ^ SALT, idx));
    let class = class_of(idx, runs, long);
    // swarm: a quarter of the runs are fault-free (chunking only), so that a relaxation for
    // faults can never hide an ordinary bug and vice versa
    let faults_enabled = rng.chance(3, 4);
    let g = gen_case(&mut rng, buf, class);
    let mut traces = vec![Trace::whole()];
    if class != SizeClass::Long || rng.chance(1, 6) {
        traces.push(Trace::one_byte());
    }
    let seeded = rng.urange(2, 4);
    for _ in 0..seeded {
        let cfg = gen_trace_cfg(&mut rng, faults_enabled);
        traces.push(gen_trace(&mut rng, &g.input, buf, &cfg));
    }
    (RRecord { input: g.input, script: g.script, traces }, class, faults_enabled)
}

fn one_run(acc: &mut Acc, master: u64, idx: u64, runs: u64, long: u64, buf: usize) {
    let (rec, class, _faults) = build_run(master, idx, runs, long, buf);
    if rec.script.is_empty() {
        acc.skipped_empty += 1;
        return;
    }
    debug_assert!(lawful(&rec.input, &rec.script));
    acc.runs += 1;
    acc.by_class[class as usize] += 1;
    {
        let probes = &mut acc.probes;
        script_probes(&rec.input, &rec.script, &mut |n| probes.hit(probe_index(n)));
    }
    let co = check(&rec);
    for (t, o) in rec.traces.iter().zip(co.outs.iter()) {
        acc.account(&rec.input, t, o, buf);
    }
    if acc.samples.len() < 3 && (idx % 7 == 3) && rec.input.len() < 80 {
        acc.samples.push(
            Json::obj()
                .with("run_index", Json::n(idx as i128))
                .with("record", rec.to_json())
                .with("results", Json::Arr(co.outs[0].results.iter().map(|s| Json::s(s)).collect())),
        );
    }
    if let Some(v) = co.violation {
        acc.note_violation(idx, rec, v);
        return;
    }

    // auxiliary systematic layer: all chunkings x one Interrupted before each call
    if class == SizeClass::Tiny && rec.input.len() >= 2 && rec.input.len() <= 10 && idx % 8 == 0 {
        acc.exhaustive_inputs += 1;
        acc.probes.hit(probe_index("exhaustive_chunkings_input"));
        let n = rec.input.len();
        let base = co.outs[0].results.clone();
        for mask in 0u32..(1u32 << (n - 1)) {
            let calls = mask.count_ones() as usize + 2;
            for fault in std::iter::once(None).chain((0..calls).map(Some)) {
                let tr = chunking_trace(n, mask, fault);
                let single = RRecord { input: rec.input.clone(), script: rec.script.clone(), traces: vec![tr] };
                let c = check(&single);
                acc.exhaustive_execs += 1;
                acc.account(&single.input, &single.traces[0], &c.outs[0], buf);
                let mut viol = c.violation;
                if viol.is_none() && c.outs[0].results != base {
                    let both = RRecord { input: rec.input.clone(), script: rec.script.clone(), traces: vec![Trace::whole(), single.traces[0].clone()] };
                    viol = check(&both).violation;
                }
                if let Some(v) = viol {
                    let both = RRecord { input: rec.input.clone(), script: rec.script.clone(), traces: vec![Trace::whole(), single.traces[0].clone()] };
                    acc.note_violation(idx, if v.oracle == "schedule" { both } else { single }, v);
                    return;
                }
            }
        }
    }
}

pub fn run(master: u64, runs: u64, long: u64, replay_dir: &str, tag: &str) -> Json {
    let buf = buf_size();
    let workers = workers_from_env();
    let total = runs + long;
    let t0 = std::time::Instant::now();
    let accs = par_for(
        total,
        workers,
        |_| Acc::new(),
        move |acc, idx, cutoff| {
            let before = acc.violating_runs;
            one_run(acc, master, idx, runs, long, buf);
            if acc.violating_runs > before {
                cutoff.lower_to(idx + 4096);
            }
        },
    );
    let wall = t0.elapsed().as_secs_f64();

    // merge (order independent)
    let mut m = Acc::new();
    let mut first_violation = u64::MAX;
    for a in &accs {
        for (_, (i, _, _)) in &a.violations {
            first_violation = first_violation.min(*i);
        }
    }
    let horizon = first_violation.saturating_add(4096);
    for a in accs {
        m.runs += a.runs;
        m.skipped_empty += a.skipped_empty;
        m.execs += a.execs;
        m.read_calls += a.read_calls;
        m.ops += a.ops;
        m.bytes += a.bytes;
        m.exhaustive_inputs += a.exhaustive_inputs;
        m.exhaustive_execs += a.exhaustive_execs;
        for i in 0..3 {
            m.by_class[i] += a.by_class[i];
        }
        m.faults.merge(&a.faults);
        m.probes.merge(&a.probes);
        m.digests.extend(a.digests);
        m.violating_runs += a.violating_runs;
        for (c, (i, r, v)) in a.violations {
            if i > horizon {
                continue;
            }
            match m.violations.get(&c) {
                Some((j, _, _)) if *j <= i => {}
                _ => {
                    m.violations.insert(c, (i, r, v));
                }
            }
        }
        m.samples.extend(a.samples);
    }
    m.samples.sort_by_key(|s| s.num_of("run_index").unwrap_or(0));
    m.samples.truncate(3);

    // minimise and persist each violation class (at most 6)
    let mut vio_json = Vec::new();
    for (class, (idx, rec, v)) in m.violations.iter().take(12) {
        // long inputs cost about a millisecond per evaluation: keep reporting prompt
        let budget = if rec.input.len() > 8192 { 5_000 } else { 30_000 };
        let (mut min_rec, evals) = minimise(rec, class, budget);
        let final_v = match check(&min_rec).violation {
            Some(fv) => fv,
            None => {
                // never pair a violation with a record that does not show it
                min_rec = rec.clone();
                v.clone()
            }
        };
        let path = format!("{}/C08-{}-{}-{}.json", replay_dir, tag, master, idx);
        let file = Json::obj()
            .with("property", Json::s("C08"))
            .with("seed", Json::n(master as i128))
            .with("run_index", Json::n(*idx as i128))
            .with("profile", Json::s(tag))
            .with("violation", final_v.to_json())
            .with("minimiser_evaluations", Json::u(evals))
            .with("original_size", Json::obj().with("input_len", Json::u(rec.input.len())).with("ops", Json::u(rec.script.len())).with("trace_events", Json::u(rec.traces.iter().map(|t| t.events.len()).sum())))
            .with("record", min_rec.to_json());
        let written = std::fs::write(&path, file.pretty()).is_ok();
        vio_json.push(
            Json::obj()
                .with("class", Json::s(class))
                .with("run_index", Json::n(*idx as i128))
                .with("detail", Json::s(&final_v.detail))
                .with("replay", Json::s(&path))
                .with("replay_written", Json::Bool(written)),
        );
    }

    Json::obj()
        .with("engine", Json::s("iosim-reader"))
        .with("property", Json::s("C08"))
        .with("profile", Json::s(tag))
        .with("debug_assertions", Json::Bool(cfg!(debug_assertions)))
        .with("seed", Json::n(master as i128))
        .with("workers", Json::u(workers))
        .with("buffer_size", Json::u(buf))
        .with("runs", Json::n(m.runs as i128))
        .with("runs_by_size_class", Json::obj().with("tiny", Json::n(m.by_class[0] as i128)).with("short", Json::n(m.by_class[1] as i128)).with("long", Json::n(m.by_class[2] as i128)))
        .with("skipped_empty_scripts", Json::n(m.skipped_empty as i128))
        .with("executions", Json::n(m.execs as i128))
        .with("exhaustive_layer", Json::obj().with("inputs", Json::n(m.exhaustive_inputs as i128)).with("executions", Json::n(m.exhaustive_execs as i128)))
        .with("simulated_read_calls", Json::n(m.read_calls as i128))
        .with("operations_checked", Json::n(m.ops as i128))
        .with("input_bytes_delivered", Json::n(m.bytes as i128))
        .with("faults_fired", m.faults.to_json())
        .with("probes", m.probes.to_json())
        .with("probes_at_zero", Json::Arr(m.probes.zeros().iter().map(|s| Json::s(s)).collect()))
        .with("distinct_interleavings", Json::u(m.digests.len()))
        .with("violating_runs", Json::n(m.violating_runs as i128))
        .with("violations", Json::Arr(vio_json))
        .with("samples", Json::Arr(m.samples))
        .with("wall_s", Json::Float(wall))
}

/// Replays run `index` of a batch, rebuilt from its seed (used for runs that hung or killed the
/// process, which therefore have no minimised record).  The run executes under a watchdog.
pub fn replay_by_index(b: &Json) -> i32 {
    let g = |k: &str| b.num_of(k).unwrap_or(0) as u64;
    let (seed, idx, runs, long) = (g("seed"), g("index"), g("runs"), g("extra"));
    let buf = buf_size();
    println!("replaying reader run index {} of seed {} (runs {}, long {})", idx, seed, runs, long);
    let res = simcore::par::with_timeout(simcore::par::hang_limit(), move || {
        let mut acc = Acc::new();
        one_run(&mut acc, seed, idx, runs, long, buf);
        acc.violations.into_iter().next().map(|(c, (_, _, v))| (c, v.detail))
    });
    match res {
        None => {
            println!("REPLAY-VIOLATION class=reader/hang// detail=the run did not finish within {} s", simcore::par::hang_limit().as_secs());
            1
        }
        Some(Some((c, d))) => {
            println!("REPLAY-VIOLATION class={} detail={}", c, d);
            1
        }
        Some(None) => {
            println!("REPLAY-CLEAN");
            0
        }
    }
}

pub fn replay(j: &Json) -> i32 {
    if let Some(b) = j.get("by_index") {
        return replay_by_index(b);
    }
    let rec = match RRecord::from_json(j) {
        Some(r) => r,
        None => {
            eprintln!("iosim: malformed reader record");
            return 2;
        }
    };
    if !lawful(&rec.input, &rec.script) {
        eprintln!("iosim: the recorded script is not lawful on the recorded input (not a valid run)");
        return 2;
    }
    let co = check(&rec);
    for (i, o) in co.outs.iter().enumerate() {
        println!("trace {}: {} read calls, results {:?}{}", i, o.log.calls, o.results, o.panicked.as_ref().map(|m| format!(", PANIC: {}", m)).unwrap_or_default());
    }
    match co.violation {
        Some(v) => {
            println!("REPLAY-VIOLATION class={} detail={}", v.class(), v.detail);
            1
        }
        None => {
            println!("REPLAY-CLEAN");
            0
        }
    }
}

/// Determinism self-test support: one line per run with a digest of everything that happened.
pub fn digests(master: u64, runs: u64) {
    let buf = buf_size();
    let workers = workers_from_env();
    let accs = par_for(
        runs,
        workers,
        |_| Vec::<(u64, u64)>::new(),
        move |acc, idx, _| {
            let (rec, _, _) = build_run(master, idx, runs, 0, buf);
            let mut d = Digest::new();
            d.bytes(&rec.input);
            for op in &rec.script {
                d.bytes(op.encode().as_bytes());
            }
            if !rec.script.is_empty() {
                let co = check(&rec);
                for (t, o) in rec.traces.iter().zip(co.outs.iter()) {
                    d.bytes(t.to_json().to_string().as_bytes());
                    for r in &o.results {
                        d.bytes(r.as_bytes());
                    }
                    d.word(o.log.calls as u64);
                    for c in &o.log.cuts {
                        d.word(*c as u64);
                    }
                    for c in &o.log.intr_at {
                        d.word(*c as u64);
                    }
                    d.bytes(o.panicked.as_deref().unwrap_or("").as_bytes());
                }
                d.bytes(co.violation.map(|v| v.class()).unwrap_or_default().as_bytes());
            }
            acc.push((idx, d.finish()));
        },
    );
    let mut all: Vec<(u64, u64)> = accs.into_iter().flatten().collect();
    all.sort_unstable();
    for (i, d) in all {
        println!("{} {:016x}", i, d);
    }
}
