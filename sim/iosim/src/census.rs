//! Value census: the "every value of every width" clause of C09 (and the "integers of every
//! width" clause of C08), decided by enumeration where the domain allows it and by structured
//! blocks where it does not - always *through the seams*: the Writer renders into a simulated
//! sink that accepts partially and interrupts, the Reader parses from a simulated source that
//! cuts the stream at seeded offsets and interrupts.
//!
//! Work items (one per parallel run, each a pure function of (master seed, item index)):
//!   * 8- and 16-bit types: the whole domain, one item per type;
//!   * 32-bit types: the whole domain in 65536 blocks of 65536 consecutive bit patterns; with
//!     `--every32 K` only the blocks b with b % K == master % K (K = 1: exhaustive);
//!   * 64/128-bit and pointer-sized types: `--wide-blocks B` blocks of 65536 consecutive values
//!     (wrapping) starting at seeded points of seeded bit length, plus the "two-group" family
//!     a * 10^k + b with a, b from {10^j - 1, 10^j, small} - the values where digit-group
//!     arithmetic (zero padding of inner groups, carries, magic-number division) goes wrong.
//!
//! The oracle is std's `Display` for the rendering and the written value for the read-back.

use std::cell::RefCell;
use std::io::{self, Read, Write};
use std::rc::Rc;

use rlib_io::{Readable, Reader, Writable, Writer};
use simcore::par::{par_for, workers_from_env};
use simcore::{escape_bytes, panic_message, run_seed, Json, Rng};

pub const BLOCK: u32 = 65536;

pub trait CInt: Copy + PartialEq + std::fmt::Display + std::fmt::Debug + Readable + Writable + 'static {
    const NAME: &'static str;
    fn from_bits(x: u128) -> Self;
    fn from_mag(neg: bool, mag: u128) -> Self;
    fn max_mag(neg: bool) -> u128;
}

macro_rules! cint {
    ($($t:ty, $u:ty, $signed:expr);*) => {$(
        impl CInt for $t {
            const NAME: &'static str = stringify!($t);
            fn from_bits(x: u128) -> Self { x as $t }
            fn from_mag(neg: bool, mag: u128) -> Self { if neg { (mag as $t).wrapping_neg() } else { mag as $t } }
            fn max_mag(neg: bool) -> u128 {
                if $signed { if neg { (<$t>::MAX as u128) + 1 } else { <$t>::MAX as u128 } } else if neg { 0 } else { <$u>::MAX as u128 }
            }
        }
    )*};
}
cint!(u8, u8, false; u16, u16, false; u32, u32, false; u64, u64, false; u128, u128, false; usize, usize, false;
      i8, u8, true; i16, u16, true; i32, u32, true; i64, u64, true; i128, u128, true; isize, usize, true);

pub const TYPES: [&str; 12] = ["u8", "i8", "u16", "i16", "u32", "i32", "u64", "i64", "usize", "isize", "u128", "i128"];

fn bits_of(ty: &str) -> u32 {
    match ty {
        "u8" | "i8" => 8,
        "u16" | "i16" => 16,
        "u32" | "i32" => 32,
        "u128" | "i128" => 128,
        _ => 64,
    }
}

#[derive(Clone, Debug, PartialEq)]
pub enum Spec {
    /// `count` consecutive bit patterns (wrapping at the type's width) starting at `start`
    Range { start: u128, count: u32 },
    /// chunk `chunk` of the two-group family, sign `neg`
    TwoGroup { chunk: u32, neg: bool },
    /// explicit values (minimised records): (neg, magnitude)
    List(Vec<(bool, u128)>),
}

#[derive(Clone, Debug, PartialEq)]
pub struct Item {
    pub side: Side,
    pub ty: &'static str,
    pub spec: Spec,
    pub seed: u64,
    /// 0 = seeded sink/source behaviour and grouping; 1 = plain (accept all, one value per call)
    pub plain: bool,
}

#[derive(Clone, Copy, Debug, PartialEq, Eq)]
pub enum Side {
    Writer,
    Reader,
}

impl Side {
    fn name(self) -> &'static str {
        match self {
            Side::Writer => "writer",
            Side::Reader => "reader",
        }
    }
}

/// The two-group family for magnitudes up to `lim`: a * 10^k + b with b < 10^k.
fn two_group(lim: u128) -> Vec<u128> {
    let mut s: Vec<u128> = vec![0, 1, 2, 5, 9, 10, 11, 19, 42, 99, 100, 101];
    let mut p: u128 = 1000;
    loop {
        s.extend_from_slice(&[p - 1, p, p + 1, p / 2]);
        if p > lim / 10 {
            break;
        }
        p *= 10;
    }
    s.sort_unstable();
    s.dedup();
    let mut out: Vec<u128> = s.iter().copied().filter(|v| *v <= lim).collect();
    let mut pk: u128 = 10;
    loop {
        for &a in s.iter().filter(|a| **a >= 1) {
            let hi = match a.checked_mul(pk) {
                Some(h) if h <= lim => h,
                _ => break,
            };
            for &b in s.iter().take_while(|b| **b < pk) {
                match hi.checked_add(b) {
                    Some(v) if v <= lim => out.push(v),
                    _ => break,
                }
            }
        }
        if pk > lim / 10 {
            break;
        }
        pk *= 10;
    }
    out.push(lim);
    out.push(lim - 1);
    out.sort_unstable();
    out.dedup();
    out
}

fn two_group_chunks(ty: &str, neg: bool) -> u32 {
    let n = two_group(lim_of(ty, neg)).len() as u32;
    (n + BLOCK - 1) / BLOCK
}

fn lim_of(ty: &str, neg: bool) -> u128 {
    match ty {
        "u8" => u8::max_mag(neg),
        "i8" => i8::max_mag(neg),
        "u16" => u16::max_mag(neg),
        "i16" => i16::max_mag(neg),
        "u32" => u32::max_mag(neg),
        "i32" => i32::max_mag(neg),
        "u64" => u64::max_mag(neg),
        "i64" => i64::max_mag(neg),
        "usize" => usize::max_mag(neg),
        "isize" => isize::max_mag(neg),
        "u128" => u128::max_mag(neg),
        _ => i128::max_mag(neg),
    }
}

/// The item list of one census: a pure function of its arguments.
pub fn items(side: Side, master: u64, every32: u64, wide_blocks: u64) -> Vec<Item> {
    let mut out: Vec<(&'static str, Spec)> = Vec::new();
    for ty in TYPES {
        let bits = bits_of(ty);
        match bits {
            8 => out.push((ty, Spec::Range { start: 0, count: 256 })),
            16 => out.push((ty, Spec::Range { start: 0, count: BLOCK })),
            32 => {
                if every32 > 0 {
                    let off = master % every32;
                    let mut b = off;
                    while b < 65536 {
                        out.push((ty, Spec::Range { start: (b as u128) << 16, count: BLOCK }));
                        b += every32;
                    }
                    // the ends of the domain and the sign change are always in
                    for b in [0u64, 32767, 32768, 65535] {
                        if b % every32 != off {
                            out.push((ty, Spec::Range { start: (b as u128) << 16, count: BLOCK }));
                        }
                    }
                }
            }
            _ => {
                let signed = ty.starts_with('i');
                for neg in [false, true] {
                    if neg && !signed {
                        continue;
                    }
                    for chunk in 0..two_group_chunks(ty, neg) {
                        out.push((ty, Spec::TwoGroup { chunk, neg }));
                    }
                }
                let mut rng = Rng::new(run_seed(master ^ 0xCE25_05, simcore::fnv1a(ty.as_bytes())));
                for j in 0..wide_blocks {
                    let len = 1 + rng.below(bits as u64) as u32;
                    let x = rng.next_u128();
                    let mut start = if len >= 128 { x } else { x & ((1u128 << len) - 1) };
                    match j % 8 {
                        // straddle a power of ten / the top of the range / zero (wrapping)
                        0 => {
                            let mut p: u128 = 1;
                            for _ in 0..rng.below(39) {
                                if p > u128::MAX / 10 {
                                    break;
                                }
                                p *= 10;
                            }
                            start = p.wrapping_sub(rng.below(BLOCK as u64) as u128);
                        }
                        1 => start = 0u128.wrapping_sub(rng.below(BLOCK as u64) as u128),
                        2 if signed => start = (1u128 << (bits - 1)).wrapping_sub(rng.below(BLOCK as u64) as u128),
                        _ => {}
                    }
                    if signed && rng.chance(1, 2) {
                        start = start.wrapping_neg();
                    }
                    out.push((ty, Spec::Range { start, count: BLOCK }));
                }
            }
        }
    }
    let salt = if side == Side::Writer { 0xCE25_0001u64 } else { 0xCE25_0002u64 };
    out.into_iter().enumerate().map(|(i, (ty, spec))| Item { side, ty, spec, seed: run_seed(master ^ salt, i as u64), plain: false }).collect()
}

fn values<T: CInt>(spec: &Spec) -> Vec<T> {
    match spec {
        Spec::Range { start, count } => (0..*count).map(|i| T::from_bits(start.wrapping_add(i as u128))).collect(),
        Spec::TwoGroup { chunk, neg } => {
            let all = two_group(T::max_mag(*neg));
            let lo = (*chunk as usize) * BLOCK as usize;
            let hi = (lo + BLOCK as usize).min(all.len());
            if lo >= hi {
                return Vec::new();
            }
            all[lo..hi].iter().map(|m| T::from_mag(*neg, *m)).collect()
        }
        Spec::List(v) => v.iter().map(|(n, m)| T::from_mag(*n, *m)).collect(),
    }
}

// ---------------------------------------------------------------------------------------------
// the seams

#[derive(Default, Clone, Copy)]
pub struct Faults {
    pub calls: u64,
    pub partial: u64,
    pub interrupted: u64,
}

struct SinkShared {
    got: Vec<u8>,
    f: Faults,
}

struct CSink {
    sh: Rc<RefCell<SinkShared>>,
    rng: Rng,
    mode: u64,
}

impl Write for CSink {
    fn write(&mut self, buf: &[u8]) -> io::Result<usize> {
        let mut sh = self.sh.borrow_mut();
        sh.f.calls += 1;
        if buf.is_empty() {
            return Ok(0);
        }
        if std::thread::panicking() || self.mode == 0 {
            sh.got.extend_from_slice(buf);
            return Ok(buf.len());
        }
        if self.rng.chance(1, 8) {
            sh.f.interrupted += 1;
            return Err(io::Error::new(io::ErrorKind::Interrupted, "simulated EINTR"));
        }
        let n = match self.mode {
            1 => self.rng.urange(1, buf.len()),
            2 => self.rng.urange(1, 7).min(buf.len()),
            _ => {
                if buf.len() > 1 && self.rng.chance(1, 2) {
                    buf.len() - 1
                } else {
                    buf.len()
                }
            }
        };
        if n < buf.len() {
            sh.f.partial += 1;
        }
        sh.got.extend_from_slice(&buf[..n]);
        Ok(n)
    }
    fn flush(&mut self) -> io::Result<()> {
        Ok(())
    }
}

struct CSource {
    data: Rc<Vec<u8>>,
    pos: usize,
    rng: Rng,
    mode: u64,
    f: Rc<RefCell<Faults>>,
}

impl Read for CSource {
    fn read(&mut self, buf: &mut [u8]) -> io::Result<usize> {
        let mut f = self.f.borrow_mut();
        f.calls += 1;
        if buf.is_empty() {
            return Ok(0);
        }
        let left = self.data.len() - self.pos;
        if self.mode != 0 && left > 0 && self.rng.chance(1, 8) {
            f.interrupted += 1;
            // an interrupted call may have scribbled on the slice
            let k = buf.len().min(4);
            for b in &mut buf[..k] {
                *b = b'7';
            }
            return Err(io::Error::new(io::ErrorKind::Interrupted, "simulated EINTR"));
        }
        let want = match self.mode {
            0 => buf.len(),
            1 => self.rng.urange(1, 4096),
            2 => self.rng.urange(1, 16),
            _ => 1,
        };
        let n = want.min(buf.len()).min(left);
        if n < buf.len().min(left) {
            f.partial += 1;
        }
        buf[..n].copy_from_slice(&self.data[self.pos..self.pos + n]);
        self.pos += n;
        // the unused tail of the slice is the callee's to scribble on
        if n < buf.len() && self.mode != 0 {
            let k = (buf.len() - n).min(3);
            for b in &mut buf[n..n + k] {
                *b = b'9';
            }
        }
        Ok(n)
    }
}

// ---------------------------------------------------------------------------------------------
// one item

pub struct Outcome {
    pub values: u64,
    pub bytes: u64,
    pub faults: Faults,
    /// (index of the value the failure was located at (usize::MAX = not located), detail)
    pub fail: Option<(usize, String)>,
}

fn render<T: CInt>(v: T, out: &mut Vec<u8>) {
    let _ = write!(out, "{}", v);
}

fn writer_item<T: CInt>(it: &Item) -> Outcome {
    let vals: Vec<T> = values(&it.spec);
    let mut rng = Rng::new(it.seed);
    let (style, mode) = if it.plain { (0, 0) } else { (rng.below(4), [0, 0, 0, 0, 1, 1, 1, 1, 1, 1, 1, 1, 3, 3, 3, 2][rng.below(16) as usize]) };
    let sh = Rc::new(RefCell::new(SinkShared { got: Vec::with_capacity(vals.len() * 8), f: Faults::default() }));
    let sink = CSink { sh: sh.clone(), rng: Rng::new(rng.next_u64()), mode };
    // plan: groups of values with the separator that follows each group
    let mut expected: Vec<u8> = Vec::with_capacity(vals.len() * 8);
    let mut starts: Vec<u32> = Vec::with_capacity(vals.len());
    let vals2 = vals.clone();
    let plan_rng_seed = rng.next_u64();
    // the model stream
    {
        let mut prng = Rng::new(plan_rng_seed);
        let mut i = 0;
        while i < vals.len() {
            let g = group_len(style, &mut prng, vals.len() - i);
            for k in 0..g {
                if k > 0 {
                    expected.push(b' ');
                }
                starts.push(expected.len() as u32);
                render(vals[i + k], &mut expected);
            }
            expected.push(if prng.chance(1, 4) { b'\n' } else { b' ' });
            i += g;
        }
    }
    let res = std::panic::catch_unwind(std::panic::AssertUnwindSafe(|| {
        let mut w = Writer::new(Box::new(sink));
        let mut prng = Rng::new(plan_rng_seed);
        let mut i = 0;
        while i < vals2.len() {
            let g = group_len(style, &mut prng, vals2.len() - i);
            match g {
                1 => w.write(&vals2[i]),
                2 => w.write(&(vals2[i], vals2[i + 1])),
                3 => w.write(&(vals2[i], vals2[i + 1], vals2[i + 2])),
                _ => w.write(&vals2[i..i + g].to_vec()),
            }
            w.write_char(if prng.chance(1, 4) { '\n' } else { ' ' });
            i += g;
        }
        w.flush();
        let after_flush = sh.borrow().got.len();
        drop(w);
        after_flush
    }));
    let shb = sh.borrow();
    let mut out = Outcome { values: vals.len() as u64, bytes: expected.len() as u64, faults: shb.f, fail: None };
    match res {
        Err(e) => out.fail = Some((usize::MAX, format!("the Writer panicked: {}", panic_message(&*e)))),
        Ok(after_flush) => {
            if shb.got != expected {
                let at = shb.got.iter().zip(expected.iter()).position(|(a, b)| a != b).unwrap_or(shb.got.len().min(expected.len()));
                let vi = match starts.binary_search(&(at as u32)) {
                    Ok(i) => i,
                    Err(i) => i.saturating_sub(1),
                };
                let lo = starts.get(vi).map(|s| *s as usize).unwrap_or(0);
                let hi_e = (lo + 48).min(expected.len());
                let hi_g = (lo + 48).min(shb.got.len());
                out.fail = Some((
                    vi,
                    format!(
                        "{} value {:?} (item value #{}): the sink received {:?} where standard formatting gives {:?} (stream offset {}, first difference at {}; sink has {} bytes, model {} bytes)",
                        T::NAME,
                        vals.get(vi),
                        vi,
                        escape_bytes(&shb.got[lo.min(hi_g)..hi_g]),
                        escape_bytes(&expected[lo.min(hi_e)..hi_e]),
                        lo,
                        at,
                        shb.got.len(),
                        expected.len()
                    ),
                ));
            } else if after_flush != expected.len() {
                out.fail = Some((usize::MAX, format!("after flush() the sink had {} of {} bytes (the rest arrived only at drop)", after_flush, expected.len())));
            }
        }
    }
    out
}

fn group_len(style: u64, rng: &mut Rng, left: usize) -> usize {
    let g = match style {
        0 => 1,
        1 => 2,
        2 => rng.urange(4, 200),
        _ => match rng.below(4) {
            0 => 1,
            1 => 2,
            2 => 3,
            _ => rng.urange(4, 40),
        },
    };
    g.min(left).max(1)
}

fn reader_item<T: CInt>(it: &Item) -> Outcome {
    let vals: Vec<T> = values(&it.spec);
    let mut rng = Rng::new(it.seed);
    // mode: 0 whole slices, 1 up to 4 KiB per call, 2 up to 16 bytes, 3 one byte per call (the
    // last two cost a call per few bytes, so they get one block in sixteen each)
    let (style, mode) = if it.plain { (0, 0) } else { (rng.below(4), [0, 0, 0, 1, 1, 1, 1, 1, 1, 1, 1, 1, 1, 1, 2, 3][rng.below(16) as usize]) };
    let mut text: Vec<u8> = Vec::with_capacity(vals.len() * 8);
    let zero_block = !it.plain && rng.chance(1, 4);
    for v in &vals {
        if zero_block && rng.chance(1, 16) {
            // leading zeros are part of a valid decimal token: "-007", "000000000000000000042"
            let start = text.len();
            render(*v, &mut text);
            let at = if text[start] == b'-' { start + 1 } else { start };
            let zeros = if rng.chance(1, 4) { rng.urange(4, 45) } else { rng.urange(1, 3) };
            text.splice(at..at, std::iter::repeat(b'0').take(zeros));
        } else {
            render(*v, &mut text);
        }
        if it.plain {
            text.push(b' ');
            continue;
        }
        match rng.below(20) {
            0..=11 => text.push(b' '),
            12..=16 => text.push(b'\n'),
            17 => text.extend_from_slice(b"\r\n"),
            18 => text.extend_from_slice(b"  "),
            _ => text.extend_from_slice(b" \n"),
        }
    }
    if !it.plain && rng.chance(1, 2) {
        // no separator after the last token
        while matches!(text.last(), Some(b' ') | Some(b'\n') | Some(b'\r')) {
            text.pop();
        }
    }
    let bytes = text.len() as u64;
    let faults = Rc::new(RefCell::new(Faults::default()));
    let src = CSource { data: Rc::new(text), pos: 0, rng: Rng::new(rng.next_u64()), mode, f: faults.clone() };
    let plan_seed = rng.next_u64();
    let res = std::panic::catch_unwind(std::panic::AssertUnwindSafe(|| {
        let mut r = Reader::new(Box::new(src));
        let mut prng = Rng::new(plan_seed);
        let mut got: Vec<T> = Vec::with_capacity(vals.len());
        while got.len() < vals.len() {
            let g = group_len(style, &mut prng, vals.len() - got.len());
            match g {
                1 => got.push(r.read::<T>()),
                2 => {
                    let (a, b) = r.read::<(T, T)>();
                    got.push(a);
                    got.push(b);
                }
                3 => {
                    let (a, b, c) = r.read::<(T, T, T)>();
                    got.push(a);
                    got.push(b);
                    got.push(c);
                }
                _ => got.extend(r.read_vec::<T>(g)),
            }
        }
        let eof = r.is_eof();
        (got, eof)
    }));
    let mut out = Outcome { values: vals.len() as u64, bytes, faults: *faults.borrow(), fail: None };
    match res {
        Err(e) => out.fail = Some((usize::MAX, format!("the Reader panicked: {}", panic_message(&*e)))),
        Ok((got, eof)) => {
            if let Some(i) = (0..vals.len()).find(|i| got.get(*i) != Some(&vals[*i])) {
                out.fail = Some((i, format!("{} token #{}: the text says {} but the Reader returned {:?}", T::NAME, i, vals[i], got.get(i))));
            } else if !eof && !vals.is_empty() {
                out.fail = Some((usize::MAX, "is_eof() is false after the last token was read".to_string()));
            }
        }
    }
    out
}

pub fn run_item(it: &Item) -> Outcome {
    macro_rules! go {
        ($($n:expr => $t:ty),*) => {
            match (it.side, it.ty) {
                $((Side::Writer, $n) => writer_item::<$t>(it), (Side::Reader, $n) => reader_item::<$t>(it),)*
                _ => panic!("harness: unknown type {}", it.ty),
            }
        };
    }
    go!("u8" => u8, "i8" => i8, "u16" => u16, "i16" => i16, "u32" => u32, "i32" => i32, "u64" => u64, "i64" => i64,
        "usize" => usize, "isize" => isize, "u128" => u128, "i128" => i128)
}

fn value_as_pair(it: &Item, idx: usize) -> Option<(bool, u128)> {
    fn one<T: CInt>(spec: &Spec, idx: usize) -> Option<(bool, u128)> {
        let v: Vec<T> = values(spec);
        let s = format!("{}", v.get(idx)?);
        let (neg, digits) = match s.strip_prefix('-') {
            Some(d) => (true, d),
            None => (false, s.as_str()),
        };
        Some((neg, digits.parse::<u128>().ok()?))
    }
    macro_rules! go {
        ($($n:expr => $t:ty),*) => { match it.ty { $($n => one::<$t>(&it.spec, idx),)* _ => None } };
    }
    go!("u8" => u8, "i8" => i8, "u16" => u16, "i16" => i16, "u32" => u32, "i32" => i32, "u64" => u64, "i64" => i64,
        "usize" => usize, "isize" => isize, "u128" => u128, "i128" => i128)
}

pub fn class_of(side: Side) -> String {
    format!("{}/census/int/", side.name())
}

/// Shrinks a failing item: one value under plain delivery, then one value under the original
/// delivery, then the original item.
pub fn minimise(it: &Item, located: usize) -> (Item, String) {
    if located != usize::MAX {
        if let Some(p) = value_as_pair(it, located) {
            for plain in [true, false] {
                let cand = Item { side: it.side, ty: it.ty, spec: Spec::List(vec![p]), seed: it.seed, plain };
                if let Some((_, d)) = run_item(&cand).fail {
                    return (cand, d);
                }
            }
            // a few neighbours before it (state carried over from the previous token)
            for back in [1usize, 2, 8, 64] {
                let lo = located.saturating_sub(back);
                let list: Vec<(bool, u128)> = (lo..=located).filter_map(|i| value_as_pair(it, i)).collect();
                let cand = Item { side: it.side, ty: it.ty, spec: Spec::List(list), seed: it.seed, plain: false };
                if let Some((_, d)) = run_item(&cand).fail {
                    return (cand, d);
                }
            }
        }
    }
    let d = run_item(it).fail.map(|f| f.1).unwrap_or_default();
    (it.clone(), d)
}

impl Item {
    pub fn to_json(&self) -> Json {
        let spec = match &self.spec {
            Spec::Range { start, count } => Json::obj().with("range", Json::obj().with("start", Json::s(&start.to_string())).with("count", Json::n(*count as i128))),
            Spec::TwoGroup { chunk, neg } => Json::obj().with("two_group", Json::obj().with("chunk", Json::n(*chunk as i128)).with("neg", Json::Bool(*neg))),
            Spec::List(v) => Json::obj().with("list", Json::Arr(v.iter().map(|(n, m)| Json::s(&format!("{}{}", if *n { "-" } else { "" }, m))).collect())),
        };
        Json::obj()
            .with("engine", Json::s("iosim-census"))
            .with("side", Json::s(self.side.name()))
            .with("ty", Json::s(self.ty))
            .with("values", spec)
            .with("seed", Json::s(&self.seed.to_string()))
            .with("plain", Json::Bool(self.plain))
    }
    pub fn from_json(j: &Json) -> Option<Item> {
        let side = match j.str_of("side")? {
            "writer" => Side::Writer,
            "reader" => Side::Reader,
            _ => return None,
        };
        let tyname = j.str_of("ty")?;
        let ty = *TYPES.iter().find(|t| **t == tyname)?;
        let v = j.get("values")?;
        let spec = if let Some(r) = v.get("range") {
            Spec::Range { start: r.str_of("start")?.parse().ok()?, count: r.num_of("count")? as u32 }
        } else if let Some(t) = v.get("two_group") {
            Spec::TwoGroup { chunk: t.num_of("chunk")? as u32, neg: matches!(t.get("neg"), Some(Json::Bool(true))) }
        } else {
            let mut list = Vec::new();
            for s in v.arr_of("list")? {
                let s = s.as_str()?;
                let (neg, d) = match s.strip_prefix('-') {
                    Some(d) => (true, d),
                    None => (false, s),
                };
                list.push((neg, d.parse::<u128>().ok()?));
            }
            Spec::List(list)
        };
        Some(Item { side, ty, spec, seed: j.str_of("seed")?.parse().ok()?, plain: matches!(j.get("plain"), Some(Json::Bool(true))) })
    }
}

#[derive(Default)]
struct Acc {
    items: u64,
    values: u64,
    bytes: u64,
    faults: Faults,
    per_type: std::collections::BTreeMap<&'static str, u64>,
    first_fail: Option<(u64, usize)>,
}

pub fn run(side: Side, master: u64, every32: u64, wide_blocks: u64, replay_dir: &str, tag: &str) -> Json {
    let list = std::sync::Arc::new(items(side, master, every32, wide_blocks));
    let n = list.len() as u64;
    let t0 = std::time::Instant::now();
    let l2 = list.clone();
    let accs = par_for(
        n,
        workers_from_env(),
        |_| Acc::default(),
        move |acc, idx, cutoff| {
            let it = &l2[idx as usize];
            let o = run_item(it);
            acc.items += 1;
            acc.values += o.values;
            acc.bytes += o.bytes;
            acc.faults.calls += o.faults.calls;
            acc.faults.partial += o.faults.partial;
            acc.faults.interrupted += o.faults.interrupted;
            *acc.per_type.entry(it.ty).or_insert(0) += o.values;
            if let Some((loc, _)) = o.fail {
                if acc.first_fail.map(|(i, _)| idx < i).unwrap_or(true) {
                    acc.first_fail = Some((idx, loc));
                }
                cutoff.lower_to(idx);
            }
        },
    );
    let wall = t0.elapsed().as_secs_f64();
    let mut m = Acc::default();
    for a in accs {
        m.items += a.items;
        m.values += a.values;
        m.bytes += a.bytes;
        m.faults.calls += a.faults.calls;
        m.faults.partial += a.faults.partial;
        m.faults.interrupted += a.faults.interrupted;
        for (k, v) in a.per_type {
            *m.per_type.entry(k).or_insert(0) += v;
        }
        if let Some((i, l)) = a.first_fail {
            if m.first_fail.map(|(j, _)| i < j).unwrap_or(true) {
                m.first_fail = Some((i, l));
            }
        }
    }
    let mut vio = Vec::new();
    if let Some((idx, loc)) = m.first_fail {
        let it = &list[idx as usize];
        let (small, detail) = minimise(it, loc);
        let class = class_of(side);
        let prop = if side == Side::Writer { "C09" } else { "C08" };
        let path = format!("{}/{}-census-{}-{}-{}.json", replay_dir, prop, tag, master, idx);
        let file = Json::obj()
            .with("property", Json::s(prop))
            .with("seed", Json::n(master as i128))
            .with("item_index", Json::n(idx as i128))
            .with("profile", Json::s(tag))
            .with("violation", Json::obj().with("class", Json::s(&class)).with("detail", Json::s(&detail)))
            .with("original_item", it.to_json())
            .with("record", small.to_json());
        let written = std::fs::write(&path, file.pretty()).is_ok();
        vio.push(Json::obj().with("class", Json::s(&class)).with("run_index", Json::n(idx as i128)).with("detail", Json::s(&detail)).with("replay", Json::s(&path)).with("replay_written", Json::Bool(written)));
    }
    let mut per = Json::obj();
    for (k, v) in &m.per_type {
        per.set(k, Json::n(*v as i128));
    }
    Json::obj()
        .with("engine", Json::s("iosim-census"))
        .with("side", Json::s(side.name()))
        .with("seed", Json::n(master as i128))
        .with("every32", Json::n(every32 as i128))
        .with("wide_blocks", Json::n(wide_blocks as i128))
        .with("items", Json::n(n as i128))
        .with("items_executed", Json::n(m.items as i128))
        .with("values", Json::n(m.values as i128))
        .with("bytes", Json::n(m.bytes as i128))
        .with("values_by_type", per)
        .with("seam_calls", Json::n(m.faults.calls as i128))
        .with("partial_transfers", Json::n(m.faults.partial as i128))
        .with("interrupted", Json::n(m.faults.interrupted as i128))
        .with("debug_assertions", Json::Bool(cfg!(debug_assertions)))
        .with("wall_s", Json::Float((wall * 1000.0).round() / 1000.0))
        .with("violations", Json::Arr(vio))
}

pub fn replay(j: &Json) -> i32 {
    let it = match Item::from_json(j) {
        Some(i) => i,
        None => {
            eprintln!("iosim: malformed census record");
            return 2;
        }
    };
    println!("replaying census item: {} side, type {}, {:?}, seed {}, plain {}", it.side.name(), it.ty, it.spec, it.seed, it.plain);
    let it2 = it.clone();
    let res = simcore::par::with_timeout(simcore::par::hang_limit(), move || run_item(&it2).fail);
    match res {
        None => {
            println!("REPLAY-VIOLATION class={}/hang// detail=the item did not finish", it.side.name());
            1
        }
        Some(Some((_, d))) => {
            println!("REPLAY-VIOLATION class={} detail={}", class_of(it.side), d);
            1
        }
        Some(None) => {
            println!("REPLAY-CLEAN");
            0
        }
    }
}
