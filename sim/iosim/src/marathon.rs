//! Marathon: ONE Reader (or Writer) instance kept alive over a very long stream - hundreds of
//! MiB in the quick tier, beyond 4 GiB in the thorough tier - so that state which accumulates
//! over a long history (a byte or call counter, an offset that is never rebased, an adaptive
//! threshold) is exercised.  The ordinary runs create a fresh instance per run and never get
//! past a few hundred KiB.
//!
//! Nothing is materialised: record i of the stream is a pure function of (seed, i); the
//! simulated source renders records on demand, the simulated sink compares what it receives
//! with the records rendered again.  Deliveries / acceptances are seeded, mostly large (speed)
//! with stretches of small ones and bursts of Interrupted.

use std::cell::RefCell;
use std::io::{self, Read, Write};
use std::rc::Rc;

use rlib_io::{Reader, Writer};
use simcore::{panic_message, run_seed, Json, Rng};

pub struct Rec {
    pub a: i64,
    pub b: u32,
    pub w: String,
    pub crlf: bool,
}

const WORD: &[u8] = b"abcxyzABZ0123456789-_.,;:!?#";

pub fn record(seed: u64, i: u64) -> Rec {
    let mut r = Rng::new(run_seed(seed ^ 0x4D41_5241, i));
    let bits = 1 + r.below(63) as u32;
    let mag = (r.next_u64() >> (64 - bits)) as i64;
    let a = if r.chance(1, 2) { -mag } else { mag };
    let b = (r.next_u64() >> (32 + r.below(32))) as u32;
    let n = 1 + r.below(12) as usize;
    let w: String = (0..n).map(|_| *r.pick(WORD) as char).collect();
    Rec { a, b, w, crlf: r.chance(1, 16) }
}

fn render(rec: &Rec, out: &mut Vec<u8>) {
    let _ = write!(out, "{} {} {}", rec.a, rec.b, rec.w);
    out.extend_from_slice(if rec.crlf { b"\r\n" } else { b"\n" });
}

#[derive(Default, Clone, Copy)]
pub struct Seam {
    pub calls: u64,
    pub partial: u64,
    pub interrupted: u64,
    pub bytes: u64,
}

/// How many bytes the next call transfers at most: long stretches of large transfers with
/// stretches of small ones in between.
struct Pace {
    rng: Rng,
    left_in_phase: u32,
    small: bool,
    intr_left: u32,
}

impl Pace {
    fn new(seed: u64) -> Pace {
        Pace { rng: Rng::new(seed), left_in_phase: 0, small: false, intr_left: 0 }
    }
    /// None = report Interrupted
    fn next(&mut self) -> Option<usize> {
        if self.intr_left > 0 {
            self.intr_left -= 1;
            return None;
        }
        if self.left_in_phase == 0 {
            self.small = self.rng.chance(1, 6);
            self.left_in_phase = if self.small { self.rng.urange(50, 2000) as u32 } else { self.rng.urange(20, 400) as u32 };
            if self.rng.chance(1, 3) {
                self.intr_left = *self.rng.pick(&[1u32, 1, 2, 5, 40]);
            }
        }
        self.left_in_phase -= 1;
        Some(if self.small { self.rng.urange(1, 64) } else { self.rng.urange(1000, 200_000) })
    }
}

struct MSource {
    seed: u64,
    next_rec: u64,
    total_recs: u64,
    pending: Vec<u8>,
    at: usize,
    pace: Pace,
    seam: Rc<RefCell<Seam>>,
}

impl Read for MSource {
    fn read(&mut self, buf: &mut [u8]) -> io::Result<usize> {
        let mut s = self.seam.borrow_mut();
        s.calls += 1;
        if buf.is_empty() {
            return Ok(0);
        }
        if self.at == self.pending.len() {
            self.pending.clear();
            self.at = 0;
            while self.pending.len() < (1 << 16) && self.next_rec < self.total_recs {
                render(&record(self.seed, self.next_rec), &mut self.pending);
                self.next_rec += 1;
            }
            if self.pending.is_empty() {
                return Ok(0);
            }
        }
        let want = match self.pace.next() {
            None => {
                s.interrupted += 1;
                return Err(io::Error::new(io::ErrorKind::Interrupted, "simulated EINTR"));
            }
            Some(w) => w,
        };
        let n = want.min(buf.len()).min(self.pending.len() - self.at);
        if n < buf.len() {
            s.partial += 1;
        }
        buf[..n].copy_from_slice(&self.pending[self.at..self.at + n]);
        self.at += n;
        s.bytes += n as u64;
        Ok(n)
    }
}

pub struct Outcome {
    pub records: u64,
    pub seam: Seam,
    pub fail: Option<String>,
}

pub fn reader_marathon(seed: u64, total_recs: u64) -> Outcome {
    let seam = Rc::new(RefCell::new(Seam::default()));
    let src = MSource { seed, next_rec: 0, total_recs, pending: Vec::new(), at: 0, pace: Pace::new(seed ^ 0x5EED), seam: seam.clone() };
    let done = Rc::new(RefCell::new(0u64));
    let done2 = done.clone();
    let res = std::panic::catch_unwind(std::panic::AssertUnwindSafe(move || -> Option<String> {
        let mut r = Reader::new(Box::new(src));
        let mut plan = Rng::new(seed ^ 0x504C_414E);
        let mut at_line_start = true;
        // after is_eof() it is open whether the line end behind the last token was consumed:
        // the next record is then read by tokens, which do not care
        let mut force_tokens = false;
        let mut i = 0u64;
        while i < total_recs {
            let rec = record(seed, i);
            let choice = if force_tokens { 7 } else { plan.below(8) };
            force_tokens = false;
            match choice {
                0 | 1 => {
                    // whole line
                    if !at_line_start {
                        let rest = r.read_line();
                        if rest.as_deref() != Some("") {
                            return Some(format!("record {}: the rest of the previous line should be Some(\"\") but read_line returned {:?}", i, rest));
                        }
                    }
                    let want = format!("{} {} {}", rec.a, rec.b, rec.w);
                    let got = r.read_line();
                    if got.as_deref() != Some(want.as_str()) {
                        return Some(format!("record {}: read_line returned {:?}, the stream has {:?}", i, got, want));
                    }
                    at_line_start = true;
                }
                2 => {
                    let (a, b, w) = r.read::<(i64, u32, String)>();
                    if (a, b, w.as_str()) != (rec.a, rec.b, rec.w.as_str()) {
                        return Some(format!("record {}: read ({}, {}, {:?}), the stream has ({}, {}, {:?})", i, a, b, w, rec.a, rec.b, rec.w));
                    }
                    at_line_start = false;
                }
                3 if i + 8 <= total_recs && plan.chance(1, 4) => {
                    // eight records as one vector of tuples
                    let v = r.read_vec::<(i64, u32, String)>(8);
                    for (k, (a, b, w)) in v.iter().enumerate() {
                        let e = record(seed, i + k as u64);
                        if (*a, *b, w.as_str()) != (e.a, e.b, e.w.as_str()) {
                            return Some(format!("record {}: read_vec element {} is ({}, {}, {:?}), the stream has ({}, {}, {:?})", i, k, a, b, w, e.a, e.b, e.w));
                        }
                    }
                    i += 7;
                    at_line_start = false;
                }
                _ => {
                    let a = r.read::<i64>();
                    let b = r.read::<u32>();
                    let w = r.read::<String>();
                    if (a, b, w.as_str()) != (rec.a, rec.b, rec.w.as_str()) {
                        return Some(format!("record {}: read {} {} {:?}, the stream has {} {} {:?}", i, a, b, w, rec.a, rec.b, rec.w));
                    }
                    at_line_start = false;
                    if plan.chance(1, 64) {
                        force_tokens = true;
                        let e = r.is_eof();
                        if e != (i + 1 == total_recs) {
                            return Some(format!("record {} of {}: is_eof() returned {} after it", i, total_recs, e));
                        }
                    }
                }
            }
            i += 1;
            *done2.borrow_mut() = i;
        }
        if !r.is_eof() {
            return Some("is_eof() is false after the last record".to_string());
        }
        None
    }));
    let fail = match res {
        Ok(f) => f,
        Err(e) => Some(format!("the Reader panicked after {} records: {}", done.borrow(), panic_message(&*e))),
    };
    let records = *done.borrow();
    let seam = *seam.borrow();
    Outcome { records, seam, fail }
}

struct MSink {
    seed: u64,
    rec: u64,
    cur: Vec<u8>,
    at: usize,
    pace: Pace,
    seam: Rc<RefCell<Seam>>,
    breach: Rc<RefCell<Option<String>>>,
}

impl MSink {
    fn expect_more(&mut self) {
        if self.at == self.cur.len() {
            self.cur.clear();
            self.at = 0;
            let r = record(self.seed, self.rec);
            self.rec += 1;
            writer_text(&r, &mut self.cur);
        }
    }
}

/// the bytes the writer script produces for one record, whichever way it groups the values
fn writer_text(r: &Rec, out: &mut Vec<u8>) {
    let _ = write!(out, "{} {} {}\n", r.a, r.b, r.w);
}

impl Write for MSink {
    fn write(&mut self, buf: &[u8]) -> io::Result<usize> {
        self.seam.borrow_mut().calls += 1;
        if buf.is_empty() {
            return Ok(0);
        }
        let n = if std::thread::panicking() {
            buf.len()
        } else {
            match self.pace.next() {
                None => {
                    self.seam.borrow_mut().interrupted += 1;
                    return Err(io::Error::new(io::ErrorKind::Interrupted, "simulated EINTR"));
                }
                Some(w) => w.min(buf.len()),
            }
        };
        if n < buf.len() {
            self.seam.borrow_mut().partial += 1;
        }
        let mut k = 0;
        while k < n {
            self.expect_more();
            let m = (n - k).min(self.cur.len() - self.at);
            if self.breach.borrow().is_none() && buf[k..k + m] != self.cur[self.at..self.at + m] {
                let total = self.seam.borrow().bytes + k as u64;
                *self.breach.borrow_mut() = Some(format!(
                    "around stream offset {} (record {}): the sink was offered {:?} where the stream should continue with {:?}",
                    total,
                    self.rec - 1,
                    simcore::escape_bytes(&buf[k..(k + m).min(k + 40)]),
                    simcore::escape_bytes(&self.cur[self.at..(self.at + m).min(self.at + 40)])
                ));
            }
            self.at += m;
            k += m;
        }
        self.seam.borrow_mut().bytes += n as u64;
        Ok(n)
    }
    fn flush(&mut self) -> io::Result<()> {
        Ok(())
    }
}

pub fn writer_marathon(seed: u64, total_recs: u64) -> Outcome {
    let seam = Rc::new(RefCell::new(Seam::default()));
    let breach = Rc::new(RefCell::new(None));
    let sink = MSink { seed, rec: 0, cur: Vec::new(), at: 0, pace: Pace::new(seed ^ 0x5EED), seam: seam.clone(), breach: breach.clone() };
    let done = Rc::new(RefCell::new(0u64));
    let (done2, breach2, seam2) = (done.clone(), breach.clone(), seam.clone());
    let res = std::panic::catch_unwind(std::panic::AssertUnwindSafe(move || -> Option<String> {
        let mut w = Writer::new(Box::new(sink));
        let mut plan = Rng::new(seed ^ 0x504C_414E);
        let mut issued: u64 = 0;
        let mut tmp = Vec::new();
        for i in 0..total_recs {
            let r = record(seed, i);
            tmp.clear();
            let _ = write!(tmp, "{} {} {}\n", r.a, r.b, r.w);
            issued += tmp.len() as u64;
            match plan.below(4) {
                0 => {
                    w.write(&(r.a, r.b, r.w.as_str()));
                    w.write_char('\n');
                }
                1 => {
                    w.write(&r.a);
                    w.write_char(' ');
                    w.write(&r.b);
                    w.write_char(' ');
                    w.write(&r.w);
                    w.write_char('\n');
                }
                2 => {
                    w.write(&(r.a, r.b));
                    w.write_char(' ');
                    w.write(&r.w.as_str());
                    w.write_char('\n');
                }
                _ => {
                    w.write(&(r.a, (r.b, r.w.clone())));
                    w.write_char('\n');
                }
            }
            if i % 4096 == 4095 {
                if let Some(b) = breach2.borrow().clone() {
                    return Some(b);
                }
            }
            if i % 100_003 == 100_002 {
                w.flush();
                let got = seam2.borrow().bytes;
                if got != issued {
                    return Some(format!("after flush() at record {} the sink has {} bytes of {} issued", i, got, issued));
                }
            }
            *done2.borrow_mut() = i + 1;
        }
        drop(w);
        let got = seam2.borrow().bytes;
        if got != issued {
            return Some(format!("after drop the sink has {} bytes of {} issued", got, issued));
        }
        breach2.borrow().clone()
    }));
    let fail = match res {
        Ok(f) => f,
        Err(e) => Some(breach.borrow().clone().unwrap_or_else(|| format!("the Writer panicked after {} records: {}", done.borrow(), panic_message(&*e)))),
    };
    let records = *done.borrow();
    let seam = *seam.borrow();
    Outcome { records, seam, fail }
}

pub fn class_of(side: &str) -> String {
    format!("{}/marathon//", side)
}

pub fn run(side: &str, seed: u64, mib: u64, replay_dir: &str, tag: &str) -> Json {
    // a record is about 25 bytes on average
    let recs = mib * (1 << 20) / 25;
    let t0 = std::time::Instant::now();
    let o = if side == "reader" { reader_marathon(seed, recs) } else { writer_marathon(seed, recs) };
    let wall = t0.elapsed().as_secs_f64();
    let mut vio = Vec::new();
    if let Some(detail) = &o.fail {
        // shrink: the shortest stream (by halving, then linearly in coarse steps) that still fails
        let run = |n: u64| if side == "reader" { reader_marathon(seed, n).fail } else { writer_marathon(seed, n).fail };
        let mut n = (o.records + 16).min(recs);
        let deadline = std::time::Instant::now() + std::time::Duration::from_secs(25);
        while n > 16 && std::time::Instant::now() < deadline {
            if run(n / 2).is_some() {
                n /= 2;
            } else {
                break;
            }
        }
        let detail2 = run(n).unwrap_or_else(|| detail.clone());
        let prop = if side == "reader" { "C08" } else { "C09" };
        let path = format!("{}/{}-marathon-{}-{}.json", replay_dir, prop, tag, seed);
        let rec = Json::obj().with("engine", Json::s("iosim-marathon")).with("side", Json::s(side)).with("seed", Json::s(&seed.to_string())).with("records", Json::n(n as i128));
        let file = Json::obj()
            .with("property", Json::s(prop))
            .with("profile", Json::s(tag))
            .with("violation", Json::obj().with("class", Json::s(&class_of(side))).with("detail", Json::s(&detail2)))
            .with("original_records", Json::n(recs as i128))
            .with("record", rec);
        let written = std::fs::write(&path, file.pretty()).is_ok();
        vio.push(Json::obj().with("class", Json::s(&class_of(side))).with("detail", Json::s(&detail2)).with("replay", Json::s(&path)).with("replay_written", Json::Bool(written)));
    }
    Json::obj()
        .with("engine", Json::s("iosim-marathon"))
        .with("side", Json::s(side))
        .with("seed", Json::n(seed as i128))
        .with("records_planned", Json::n(recs as i128))
        .with("records_done", Json::n(o.records as i128))
        .with("stream_bytes", Json::n(o.seam.bytes as i128))
        .with("seam_calls", Json::n(o.seam.calls as i128))
        .with("partial_transfers", Json::n(o.seam.partial as i128))
        .with("interrupted", Json::n(o.seam.interrupted as i128))
        .with("debug_assertions", Json::Bool(cfg!(debug_assertions)))
        .with("wall_s", Json::Float((wall * 1000.0).round() / 1000.0))
        .with("violations", Json::Arr(vio))
}

pub fn replay(j: &Json) -> i32 {
    let side = j.str_of("side").unwrap_or("reader").to_string();
    let seed: u64 = j.str_of("seed").and_then(|s| s.parse().ok()).unwrap_or(0);
    let recs = j.num_of("records").unwrap_or(0) as u64;
    println!("replaying marathon: {} side, seed {}, {} records", side, seed, recs);
    let o = if side == "reader" { reader_marathon(seed, recs) } else { writer_marathon(seed, recs) };
    match o.fail {
        Some(d) => {
            println!("REPLAY-VIOLATION class={} detail={}", class_of(&side), d);
            1
        }
        None => {
            println!("REPLAY-CLEAN");
            0
        }
    }
}
