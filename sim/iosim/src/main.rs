//! iosim — deterministic simulation of rlib_io's Reader (C08) and Writer (C09) behind their
//! `Box<dyn Read>` / `Box<dyn Write>` seams.
//!
//!   iosim reader --runs N --long M [--seed S] --out summary.json --replay-dir DIR --tag T
//!   iosim writer --runs N --sweep 0|1 [--seed S] --out summary.json --replay-dir DIR --tag T
//!   iosim census --side writer|reader --every32 K --wide-blocks B [--seed S] --out F --replay-dir DIR --tag T
//!   iosim marathon --side reader|writer --mib N [--seed S] --out F --replay-dir DIR --tag T
//!   iosim replay FILE            exit 1 iff the recorded run still violates (prints the class)
//!   iosim digest reader|writer --runs N   per-run trace digests (determinism self-test)
//!
//! Exit status: 0 = completed (violations, if any, are listed in the summary), 2 = harness error.

mod census;
mod marathon;
mod model;
mod rgen;
mod rrun;
mod rsim;
mod types;
mod wrun;
mod wsim;

use simcore::Json;

fn arg(args: &[String], name: &str) -> Option<String> {
    args.iter().position(|a| a == name).and_then(|i| args.get(i + 1)).cloned()
}

fn main() {
    let args: Vec<String> = std::env::args().collect();
    simcore::silence_panics();
    let cmd = args.get(1).map(|s| s.as_str()).unwrap_or("");
    let code = match cmd {
        "reader" | "writer" => {
            let runs: u64 = arg(&args, "--runs").and_then(|s| s.parse().ok()).unwrap_or(1000);
            let long: u64 = arg(&args, "--long").and_then(|s| s.parse().ok()).unwrap_or(0);
            let sweep: u64 = arg(&args, "--sweep").and_then(|s| s.parse().ok()).unwrap_or(0);
            let seed: u64 = arg(&args, "--seed").and_then(|s| s.parse().ok()).unwrap_or_else(simcore::verif_seed);
            let out = arg(&args, "--out");
            let replay_dir = arg(&args, "--replay-dir").unwrap_or_else(|| ".".into());
            let tag = arg(&args, "--tag").unwrap_or_else(|| "x".into());
            let summary = if cmd == "reader" { rrun::run(seed, runs, long, &replay_dir, &tag) } else { wrun::run(seed, runs, sweep, &replay_dir, &tag) };
            let text = summary.pretty();
            match out {
                Some(p) => std::fs::write(&p, text).map(|_| 0).unwrap_or_else(|e| {
                    eprintln!("iosim: cannot write {}: {}", p, e);
                    2
                }),
                None => {
                    print!("{}", text);
                    0
                }
            }
        }
        "census" => {
            let side = match arg(&args, "--side").as_deref() {
                Some("reader") => census::Side::Reader,
                _ => census::Side::Writer,
            };
            let every32: u64 = arg(&args, "--every32").and_then(|s| s.parse().ok()).unwrap_or(0);
            let wide: u64 = arg(&args, "--wide-blocks").and_then(|s| s.parse().ok()).unwrap_or(8);
            let seed: u64 = arg(&args, "--seed").and_then(|s| s.parse().ok()).unwrap_or_else(simcore::verif_seed);
            let replay_dir = arg(&args, "--replay-dir").unwrap_or_else(|| ".".into());
            let tag = arg(&args, "--tag").unwrap_or_else(|| "x".into());
            let text = census::run(side, seed, every32, wide, &replay_dir, &tag).pretty();
            match arg(&args, "--out") {
                Some(p) => std::fs::write(&p, text).map(|_| 0).unwrap_or(2),
                None => {
                    print!("{}", text);
                    0
                }
            }
        }
        "marathon" => {
            let side = arg(&args, "--side").unwrap_or_else(|| "reader".into());
            let mib: u64 = arg(&args, "--mib").and_then(|s| s.parse().ok()).unwrap_or(64);
            let seed: u64 = arg(&args, "--seed").and_then(|s| s.parse().ok()).unwrap_or_else(simcore::verif_seed);
            let replay_dir = arg(&args, "--replay-dir").unwrap_or_else(|| ".".into());
            let tag = arg(&args, "--tag").unwrap_or_else(|| "x".into());
            let text = marathon::run(&side, seed, mib, &replay_dir, &tag).pretty();
            match arg(&args, "--out") {
                Some(p) => std::fs::write(&p, text).map(|_| 0).unwrap_or(2),
                None => {
                    print!("{}", text);
                    0
                }
            }
        }
        "replay" => {
            let path = match args.get(2) {
                Some(p) => p,
                None => {
                    eprintln!("usage: iosim replay FILE");
                    std::process::exit(2);
                }
            };
            let text = match std::fs::read_to_string(path) {
                Ok(t) => t,
                Err(e) => {
                    eprintln!("iosim: cannot read {}: {}", path, e);
                    std::process::exit(2);
                }
            };
            let j = match Json::parse(&text) {
                Ok(j) => j,
                Err(e) => {
                    eprintln!("iosim: bad replay file {}: {}", path, e);
                    std::process::exit(2);
                }
            };
            let rec = j.get("record").unwrap_or(&j);
            match rec.str_of("engine") {
                Some("iosim-reader") => rrun::replay(rec),
                Some("iosim-writer") => wrun::replay(rec),
                Some("iosim-census") => census::replay(rec),
                Some("iosim-marathon") => marathon::replay(rec),
                other => {
                    eprintln!("iosim: not an iosim record (engine = {:?})", other);
                    2
                }
            }
        }
        "digest" => {
            let which = args.get(2).map(|s| s.as_str()).unwrap_or("reader");
            let runs: u64 = arg(&args, "--runs").and_then(|s| s.parse().ok()).unwrap_or(1000);
            let seed: u64 = arg(&args, "--seed").and_then(|s| s.parse().ok()).unwrap_or_else(simcore::verif_seed);
            if which == "reader" {
                rrun::digests(seed, runs)
            } else {
                wrun::digests(seed, runs)
            }
            0
        }
        _ => {
            eprintln!("usage: iosim reader|writer|replay|digest ...");
            2
        }
    };
    std::process::exit(code);
}
