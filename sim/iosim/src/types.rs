//! Value and type vocabulary shared by the reader and writer simulations, plus the static
//! dispatch tables that turn a run-time type tag into a call of the generic rlib_io API.

use rlib_io::{Readable, Reader, Writable, Writer};
use simcore::{escape_bytes, unescape_bytes, Json, Rng};

#[derive(Clone, Copy, PartialEq, Eq, Debug)]
pub enum IntTy {
    I8,
    I16,
    I32,
    I64,
    I128,
    Isize,
    U8,
    U16,
    U32,
    U64,
    U128,
    Usize,
}

pub const ALL_INT: [IntTy; 12] = [
    IntTy::I8,
    IntTy::I16,
    IntTy::I32,
    IntTy::I64,
    IntTy::I128,
    IntTy::Isize,
    IntTy::U8,
    IntTy::U16,
    IntTy::U32,
    IntTy::U64,
    IntTy::U128,
    IntTy::Usize,
];

impl IntTy {
    pub fn name(self) -> &'static str {
        match self {
            IntTy::I8 => "i8",
            IntTy::I16 => "i16",
            IntTy::I32 => "i32",
            IntTy::I64 => "i64",
            IntTy::I128 => "i128",
            IntTy::Isize => "isize",
            IntTy::U8 => "u8",
            IntTy::U16 => "u16",
            IntTy::U32 => "u32",
            IntTy::U64 => "u64",
            IntTy::U128 => "u128",
            IntTy::Usize => "usize",
        }
    }
    pub fn from_name(s: &str) -> Option<IntTy> {
        ALL_INT.iter().copied().find(|t| t.name() == s)
    }
    pub fn index(self) -> usize {
        ALL_INT.iter().position(|t| *t == self).unwrap()
    }
    pub fn signed(self) -> bool {
        matches!(self, IntTy::I8 | IntTy::I16 | IntTy::I32 | IntTy::I64 | IntTy::I128 | IntTy::Isize)
    }
    pub fn bits(self) -> u32 {
        match self {
            IntTy::I8 | IntTy::U8 => 8,
            IntTy::I16 | IntTy::U16 => 16,
            IntTy::I32 | IntTy::U32 => 32,
            IntTy::I64 | IntTy::U64 => 64,
            IntTy::I128 | IntTy::U128 => 128,
            IntTy::Isize | IntTy::Usize => usize::BITS,
        }
    }
    /// Largest magnitude on the non-negative side.
    pub fn max_mag(self) -> u128 {
        if self.signed() {
            (1u128 << (self.bits() - 1)) - 1
        } else if self.bits() == 128 {
            u128::MAX
        } else {
            (1u128 << self.bits()) - 1
        }
    }
    /// Largest magnitude on the negative side (0 for unsigned).
    pub fn min_mag(self) -> u128 {
        if self.signed() {
            1u128 << (self.bits() - 1)
        } else {
            0
        }
    }
}

/// An integer value of some type: sign and magnitude (covers i128::MIN and u128::MAX).
/// `neg` with `mag == 0` is the text "-0", which signed reads accept.
#[derive(Clone, Copy, PartialEq, Eq, Debug)]
pub struct IntVal {
    pub ty: IntTy,
    pub neg: bool,
    pub mag: u128,
}

impl IntVal {
    pub fn fits(ty: IntTy, neg: bool, mag: u128) -> bool {
        if neg {
            ty.signed() && mag <= ty.min_mag()
        } else {
            mag <= ty.max_mag()
        }
    }
    /// Standard decimal rendering of the *value* (so "-0" renders as "0").
    pub fn decimal(&self) -> String {
        if self.neg && self.mag != 0 {
            format!("-{}", self.mag)
        } else {
            format!("{}", self.mag)
        }
    }
    pub fn canon(&self) -> String {
        format!("{}:{}", self.ty.name(), self.decimal())
    }
    /// Boundary-biased generator over the full range of `ty`.
    pub fn gen(rng: &mut Rng, ty: IntTy) -> IntVal {
        let neg = ty.signed() && rng.chance(1, 2);
        let lim = if neg { ty.min_mag() } else { ty.max_mag() };
        let mag = match rng.below(16) {
            14 | 15 => {
                // digit groups (2, 3, 4, 8, 9, 16 or 19 digits wide) drawn from the extremes of a group:
                // where table-driven and divide-by-10^g renderers / parsers pad, carry or overflow
                let g = *rng.pick(&[2usize, 3, 4, 4, 8, 9, 16, 19]);
                let groups = 1 + rng.below((39 / g as u64).max(1) + 1) as usize;
                let mut digits: Vec<u8> = Vec::new();
                for _ in 0..groups {
                    let grp: Vec<u8> = match rng.below(7) {
                        0 => vec![0; g],
                        1 => vec![9; g],
                        2 => {
                            let mut v = vec![0; g];
                            v[g - 1] = 1;
                            v
                        }
                        3 => {
                            let mut v = vec![0; g];
                            v[0] = 1;
                            v
                        }
                        4 => {
                            let mut v = vec![9; g];
                            v[g - 1] = 0;
                            v
                        }
                        _ => (0..g).map(|_| rng.below(10) as u8).collect(),
                    };
                    digits.extend(grp);
                }
                let mut m: u128 = 0;
                for d in digits {
                    m = match m.checked_mul(10).and_then(|x| x.checked_add(d as u128)) {
                        Some(x) if x <= lim => x,
                        _ => break,
                    };
                }
                m
            }
            12 => {
                // digit patterns where carries and digit-group arithmetic go wrong: a random head
                // followed by a run of 9s or 0s (…9999, …0000), within the type's range
                let run = 1 + rng.below(9) as u32;
                let p = 10u128.pow(run);
                let head = rng.next_u128() % (lim / p + 1);
                let tail = if rng.chance(1, 2) { p - 1 } else { 0 };
                (head * p).saturating_add(tail).min(lim)
            }
            13 => {
                // d * 10^k and its neighbours for a random leading digit d
                let mut p: u128 = 1;
                let k = rng.below(39);
                for _ in 0..k {
                    if p > lim / 10 {
                        break;
                    }
                    p *= 10;
                }
                let d = 1 + rng.below(9) as u128;
                let base = p.saturating_mul(d).min(lim);
                match rng.below(3) {
                    0 => base.saturating_sub(1),
                    1 => base,
                    _ => base.saturating_add(1).min(lim),
                }
            }
            0 => 0,
            1 => lim,
            2 => lim - 1.min(lim),
            3 => 1,
            4 => {
                // power of ten, +-1
                let mut p: u128 = 1;
                let k = rng.below(39);
                for _ in 0..k {
                    if p > lim / 10 {
                        break;
                    }
                    p *= 10;
                }
                match rng.below(3) {
                    0 => p - 1,
                    1 => p,
                    _ => (p + 1).min(lim),
                }
            }
            5 => {
                // power of two, +-1
                let k = rng.below(ty.bits() as u64) as u32;
                let p = 1u128 << k;
                (match rng.below(3) {
                    0 => p - 1,
                    1 => p,
                    _ => p.saturating_add(1),
                })
                .min(lim)
            }
            6 | 7 => rng.below(1000) as u128,
            8 => lim / 10 + rng.below(10) as u128, // one digit short of the longest
            _ => {
                // uniform in digit count, then uniform
                let bits = 1 + rng.below(ty.bits() as u64) as u32;
                let x = rng.next_u128();
                let m = if bits >= 128 { x } else { x & ((1u128 << bits) - 1) };
                m.min(lim)
            }
        };
        IntVal { ty, neg, mag: mag.min(lim) }
    }
}

/// Element kinds usable inside tuples / vectors / as single tokens.
#[derive(Clone, Copy, PartialEq, Eq, Debug)]
pub enum ElemTy {
    Int(IntTy),
    Str,
    Char,
}

impl ElemTy {
    pub fn name(self) -> String {
        match self {
            ElemTy::Int(t) => t.name().to_string(),
            ElemTy::Str => "str".to_string(),
            ElemTy::Char => "char".to_string(),
        }
    }
    pub fn from_name(s: &str) -> Option<ElemTy> {
        match s {
            "str" => Some(ElemTy::Str),
            "char" => Some(ElemTy::Char),
            _ => IntTy::from_name(s).map(ElemTy::Int),
        }
    }
}

/// A generated value (writer side and round trip).
#[derive(Clone, PartialEq, Eq, Debug)]
pub enum Val {
    Int(IntVal),
    Str(Vec<u8>),
    Char(u8),
}

impl Val {
    pub fn canon(&self) -> String {
        match self {
            Val::Int(v) => v.canon(),
            Val::Str(s) => format!("str:{}", escape_bytes(s)),
            Val::Char(c) => format!("char:{}", escape_bytes(&[*c])),
        }
    }
    /// Bytes the Writer must produce for this value.
    pub fn rendering(&self) -> Vec<u8> {
        match self {
            Val::Int(v) => v.decimal().into_bytes(),
            Val::Str(s) => s.clone(),
            Val::Char(c) => vec![*c],
        }
    }
    pub fn to_json(&self) -> Json {
        match self {
            Val::Int(v) => Json::s(&format!("{}:{}{}", v.ty.name(), if v.neg { "-" } else { "" }, v.mag)),
            Val::Str(s) => Json::s(&format!("str:{}", escape_bytes(s))),
            Val::Char(c) => Json::s(&format!("char:{}", escape_bytes(&[*c]))),
        }
    }
    pub fn from_json(j: &Json) -> Option<Val> {
        let s = j.as_str()?;
        let (t, rest) = s.split_once(':')?;
        match t {
            "str" => Some(Val::Str(unescape_bytes(rest))),
            "char" => Some(Val::Char(*unescape_bytes(rest).first()?)),
            _ => {
                let ty = IntTy::from_name(t)?;
                let (neg, digits) = match rest.strip_prefix('-') {
                    Some(d) => (true, d),
                    None => (false, rest),
                };
                Some(Val::Int(IntVal { ty, neg, mag: digits.parse().ok()? }))
            }
        }
    }
}

// ---------------------------------------------------------------------------------------------
// canonical rendering of values returned by the real Reader

pub trait Canon {
    fn canon(&self) -> String;
}

macro_rules! canon_int {
    ($($t:ty => $n:expr),*) => {$(
        impl Canon for $t {
            fn canon(&self) -> String { format!("{}:{}", $n, self) }
        }
    )*};
}
canon_int!(i8 => "i8", i16 => "i16", i32 => "i32", i64 => "i64", i128 => "i128", isize => "isize",
           u8 => "u8", u16 => "u16", u32 => "u32", u64 => "u64", u128 => "u128", usize => "usize");

impl Canon for String {
    fn canon(&self) -> String {
        format!("str:{}", escape_bytes(self.as_bytes()))
    }
}
impl Canon for char {
    fn canon(&self) -> String {
        let mut b = [0u8; 4];
        format!("char:{}", escape_bytes(self.encode_utf8(&mut b).as_bytes()))
    }
}
impl<T: Canon> Canon for Vec<T> {
    fn canon(&self) -> String {
        format!("[{}]", self.iter().map(|x| x.canon()).collect::<Vec<_>>().join(","))
    }
}
macro_rules! canon_tuple {
    ($($t:ident),*) => {
        impl<$($t: Canon,)*> Canon for ($($t,)*) {
            #[allow(non_snake_case)]
            fn canon(&self) -> String {
                let ($($t,)*) = self;
                format!("({})", vec![$($t.canon()),*].join(","))
            }
        }
    }
}
canon_tuple!(A, B);
canon_tuple!(A, B, C);
canon_tuple!(A, B, C, D);
canon_tuple!(A, B, C, D, E);
canon_tuple!(A, B, C, D, E, F);
canon_tuple!(A, B, C, D, E, F, G);
canon_tuple!(A, B, C, D, E, F, G, H);

// ---------------------------------------------------------------------------------------------
// building typed values from generated ones (writer side)

pub trait Build: Sized {
    const TY: ElemTy;
    fn build(v: &Val) -> Self;
}

macro_rules! build_int {
    ($($t:ty => $tag:expr),*) => {$(
        impl Build for $t {
            const TY: ElemTy = ElemTy::Int($tag);
            fn build(v: &Val) -> Self {
                match v {
                    Val::Int(iv) => {
                        if iv.neg {
                            // two's complement negate of the magnitude, truncated to the width
                            (iv.mag as $t).wrapping_neg()
                        } else {
                            iv.mag as $t
                        }
                    }
                    _ => panic!("harness: value/type mismatch"),
                }
            }
        }
    )*};
}
build_int!(i8 => IntTy::I8, i16 => IntTy::I16, i32 => IntTy::I32, i64 => IntTy::I64, i128 => IntTy::I128, isize => IntTy::Isize,
           u8 => IntTy::U8, u16 => IntTy::U16, u32 => IntTy::U32, u64 => IntTy::U64, u128 => IntTy::U128, usize => IntTy::Usize);

impl Build for String {
    const TY: ElemTy = ElemTy::Str;
    fn build(v: &Val) -> Self {
        match v {
            Val::Str(s) => String::from_utf8(s.clone()).expect("harness: ASCII strings only"),
            _ => panic!("harness: value/type mismatch"),
        }
    }
}
impl Build for char {
    const TY: ElemTy = ElemTy::Char;
    fn build(v: &Val) -> Self {
        match v {
            Val::Char(c) => *c as char,
            _ => panic!("harness: value/type mismatch"),
        }
    }
}

// ---------------------------------------------------------------------------------------------
// dispatch: run-time tag -> generic call

pub fn read_int(r: &mut Reader, ty: IntTy) -> String {
    match ty {
        IntTy::I8 => r.read::<i8>().canon(),
        IntTy::I16 => r.read::<i16>().canon(),
        IntTy::I32 => r.read::<i32>().canon(),
        IntTy::I64 => r.read::<i64>().canon(),
        IntTy::I128 => r.read::<i128>().canon(),
        IntTy::Isize => r.read::<isize>().canon(),
        IntTy::U8 => r.read::<u8>().canon(),
        IntTy::U16 => r.read::<u16>().canon(),
        IntTy::U32 => r.read::<u32>().canon(),
        IntTy::U64 => r.read::<u64>().canon(),
        IntTy::U128 => r.read::<u128>().canon(),
        IntTy::Usize => r.read::<usize>().canon(),
    }
}

pub fn read_elem(r: &mut Reader, ty: ElemTy) -> String {
    match ty {
        ElemTy::Int(t) => read_int(r, t),
        ElemTy::Str => r.read::<String>().canon(),
        ElemTy::Char => r.read::<char>().canon(),
    }
}

pub fn read_vec(r: &mut Reader, ty: ElemTy, n: usize) -> String {
    fn go<T: Readable + Canon>(r: &mut Reader, n: usize) -> String {
        r.read_vec::<T>(n).canon()
    }
    match ty {
        ElemTy::Int(IntTy::I8) => go::<i8>(r, n),
        ElemTy::Int(IntTy::I16) => go::<i16>(r, n),
        ElemTy::Int(IntTy::I32) => go::<i32>(r, n),
        ElemTy::Int(IntTy::I64) => go::<i64>(r, n),
        ElemTy::Int(IntTy::I128) => go::<i128>(r, n),
        ElemTy::Int(IntTy::Isize) => go::<isize>(r, n),
        ElemTy::Int(IntTy::U8) => go::<u8>(r, n),
        ElemTy::Int(IntTy::U16) => go::<u16>(r, n),
        ElemTy::Int(IntTy::U32) => go::<u32>(r, n),
        ElemTy::Int(IntTy::U64) => go::<u64>(r, n),
        ElemTy::Int(IntTy::U128) => go::<u128>(r, n),
        ElemTy::Int(IntTy::Usize) => go::<usize>(r, n),
        ElemTy::Str => go::<String>(r, n),
        ElemTy::Char => go::<char>(r, n),
    }
}

pub fn write_int(w: &mut Writer, v: &Val) {
    let ty = match v {
        Val::Int(iv) => iv.ty,
        _ => panic!("harness: value/type mismatch"),
    };
    match ty {
        IntTy::I8 => w.write(&i8::build(v)),
        IntTy::I16 => w.write(&i16::build(v)),
        IntTy::I32 => w.write(&i32::build(v)),
        IntTy::I64 => w.write(&i64::build(v)),
        IntTy::I128 => w.write(&i128::build(v)),
        IntTy::Isize => w.write(&isize::build(v)),
        IntTy::U8 => w.write(&u8::build(v)),
        IntTy::U16 => w.write(&u16::build(v)),
        IntTy::U32 => w.write(&u32::build(v)),
        IntTy::U64 => w.write(&u64::build(v)),
        IntTy::U128 => w.write(&u128::build(v)),
        IntTy::Usize => w.write(&usize::build(v)),
    }
}

pub fn write_vec(w: &mut Writer, ty: ElemTy, vals: &[Val]) {
    fn go<T: Build + Writable>(w: &mut Writer, vals: &[Val]) {
        let v: Vec<T> = vals.iter().map(T::build).collect();
        w.write(&v);
    }
    match ty {
        ElemTy::Int(IntTy::I8) => go::<i8>(w, vals),
        ElemTy::Int(IntTy::I16) => go::<i16>(w, vals),
        ElemTy::Int(IntTy::I32) => go::<i32>(w, vals),
        ElemTy::Int(IntTy::I64) => go::<i64>(w, vals),
        ElemTy::Int(IntTy::I128) => go::<i128>(w, vals),
        ElemTy::Int(IntTy::Isize) => go::<isize>(w, vals),
        ElemTy::Int(IntTy::U8) => go::<u8>(w, vals),
        ElemTy::Int(IntTy::U16) => go::<u16>(w, vals),
        ElemTy::Int(IntTy::U32) => go::<u32>(w, vals),
        ElemTy::Int(IntTy::U64) => go::<u64>(w, vals),
        ElemTy::Int(IntTy::U128) => go::<u128>(w, vals),
        ElemTy::Int(IntTy::Usize) => go::<usize>(w, vals),
        ElemTy::Str => go::<String>(w, vals),
        ElemTy::Char => panic!("harness: char is not Writable"),
    }
}

/// The fixed menu of tuple types (arity 2..=8, mixed element types) that scripts may use.
/// A macro expands it into a type table and the read / write dispatchers.
macro_rules! tuple_menu {
    ($( ($($t:ty),+) ),+ $(,)?) => {
        pub const TUPLES: &[&[ElemTy]] = &[ $( &[ $( <$t as Build>::TY ),+ ] ),+ ];

        pub fn read_tuple(r: &mut Reader, k: usize) -> String {
            let mut idx = 0usize;
            $(
                if k == idx {
                    let v: ($($t,)+) = r.read();
                    return v.canon();
                }
                idx += 1;
            )+
            let _ = idx;
            panic!("harness: tuple index out of range");
        }

        /// Writes tuple number `k` built from `vals`; returns false if tuple `k` contains a
        /// `char` (not Writable) so that the caller can avoid generating it.
        pub fn write_tuple(w: &mut Writer, k: usize, vals: &[Val]) {
            let mut idx = 0usize;
            $(
                if k == idx {
                    let mut it = vals.iter();
                    let v: ($($t,)+) = ( $( <$t as BuildW>::build_w(it.next().expect("harness: tuple arity")), )+ );
                    w.write(&v);
                    return;
                }
                idx += 1;
            )+
            let _ = idx;
            panic!("harness: tuple index out of range");
        }
    };
}

/// `char` is Readable but not Writable; on the write side a char slot is carried as a
/// one-character String (identical rendering), so one menu serves both directions.
pub trait BuildW: Sized {
    fn build_w(v: &Val) -> Self;
}
macro_rules! buildw_same { ($($t:ty),*) => {$( impl BuildW for $t { fn build_w(v: &Val) -> Self { <$t as Build>::build(v) } } )*}; }
buildw_same!(i8, i16, i32, i64, i128, isize, u8, u16, u32, u64, u128, usize, String);

tuple_menu!(
    (i32, i32),
    (u64, String),
    (String, i8),
    (i128, u128),
    (usize, isize),
    (u8, u16, u32),
    (i64, String, i64),
    (String, String, String),
    (i16, u8, i128),
    (u32, i32, u64, i64),
    (String, u128, String, i8),
    (i8, i16, i32, i64, i128),
    (usize, String, isize, String, u16),
    (u8, u16, u32, u64, u128, usize),
    (String, i64, String, i64, String, i64),
    (i128, i128, u128, u128, i64, u64, i32),
    (String, String, i8, u8, String, isize, usize),
    (i8, i16, i32, i64, i128, isize, u8, u16),
    (u16, u32, u64, u128, usize, String, String, i128),
    (i32, String, u64, String, i8, String, u128, String)
);

/// Tuple types with `char` slots (read side only; `char` is not Writable).
macro_rules! char_tuple_menu {
    ($( ($($t:ty),+) ),+ $(,)?) => {
        pub const CHAR_TUPLES: &[&[ElemTy]] = &[ $( &[ $( <$t as Build>::TY ),+ ] ),+ ];
        pub fn read_char_tuple(r: &mut Reader, k: usize) -> String {
            let mut idx = 0usize;
            $(
                if k == idx {
                    let v: ($($t,)+) = r.read();
                    return v.canon();
                }
                idx += 1;
            )+
            let _ = idx;
            panic!("harness: char tuple index out of range");
        }
    };
}
char_tuple_menu!((char, i32), (i64, char, String), (char, char, char), (String, char, u8, char), (u32, char, i16, char, String, i128, char, char));

pub fn tuple_types(k: usize) -> &'static [ElemTy] {
    if k < TUPLES.len() {
        TUPLES[k]
    } else {
        CHAR_TUPLES[k - TUPLES.len()]
    }
}
pub fn tuple_count() -> usize {
    TUPLES.len() + CHAR_TUPLES.len()
}
pub fn read_any_tuple(r: &mut Reader, k: usize) -> String {
    if k < TUPLES.len() {
        read_tuple(r, k)
    } else {
        read_char_tuple(r, k - TUPLES.len())
    }
}
