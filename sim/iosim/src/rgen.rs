//! Seeded generation of reader runs: input bytes from a token/separator grammar, a lawful
//! script built against the reference model, and delivery traces aimed at the places where
//! delivery could matter.

use crate::model::*;
use crate::rsim::*;
use crate::types::*;
use simcore::Rng;

#[derive(Clone, Copy, PartialEq, Eq, Debug)]
pub enum SizeClass {
    Tiny,
    Short,
    Long,
}

pub struct GenOut {
    pub input: Vec<u8>,
    pub script: Vec<ROp>,
    pub class: SizeClass,
}

const SEPS: &[&[u8]] = &[b" ", b" ", b" ", b"\n", b"\n", b"\t", b"\r\n", b"\r\n", b"\r", b"  ", b" \n", b"\n\n", b"\r\n\r\n", b" \t \n", b"\n \r\n "];

fn gen_sep(rng: &mut Rng, out: &mut Vec<u8>) {
    let sep: &[u8] = SEPS[rng.usize_below(SEPS.len())];
    out.extend_from_slice(sep);
}

fn int_text(rng: &mut Rng, ty: IntTy) -> Vec<u8> {
    let v = IntVal::gen(rng, ty);
    let mut s = Vec::new();
    if v.neg {
        s.push(b'-'); // includes "-0"
    }
    if rng.chance(1, 12) {
        // mostly one to three leading zeros; now and then more zeros than the type has digits
        // (a parser that counts digits or reads a fixed-width block must not mind)
        let zeros = if rng.chance(1, 10) { rng.range(4, 45) } else { rng.range(1, 3) };
        for _ in 0..zeros {
            s.push(b'0');
        }
    }
    s.extend_from_slice(v.mag.to_string().as_bytes());
    s
}

const STR_BYTES: &[u8] = b"abcxyzABZ0123456789--__..,,;:!?#$%&()*+/<=>@[]^{|}~'\"`\\";

fn str_text(rng: &mut Rng) -> Vec<u8> {
    let n = match rng.below(6) {
        0 => 1,
        1 => 2,
        2 => match rng.below(8) {
            // block-wise scanners (8 / 16 / 32 / 64 bytes at a time) need tokens around and
            // beyond their block sizes
            0 => rng.urange(13, 80),
            1 => *rng.pick(&[7usize, 8, 9, 15, 16, 17, 31, 32, 33, 63, 64, 65, 127, 128, 129]),
            2 if rng.chance(1, 4) => rng.urange(130, 600),
            _ => rng.urange(1, 12),
        },
        _ => rng.urange(1, 12),
    };
    (0..n).map(|_| *rng.pick(STR_BYTES)).collect()
}

fn elem_text(rng: &mut Rng, ty: ElemTy) -> Vec<u8> {
    match ty {
        ElemTy::Int(t) => int_text(rng, t),
        ElemTy::Str => str_text(rng),
        ElemTy::Char => {
            // a char read takes one byte; sometimes leave a tail glued to it
            let mut s = vec![*rng.pick(STR_BYTES)];
            if rng.chance(1, 3) {
                if rng.chance(1, 2) {
                    s.extend_from_slice(rng.below(1000).to_string().as_bytes());
                } else {
                    s.extend_from_slice(&str_text(rng));
                }
            }
            s
        }
    }
}

fn any_elem_ty(rng: &mut Rng) -> ElemTy {
    match rng.below(10) {
        0 => ElemTy::Str,
        1 => ElemTy::Char,
        _ => ElemTy::Int(*rng.pick(&ALL_INT)),
    }
}

fn line_content(rng: &mut Rng) -> Vec<u8> {
    let mut s = Vec::new();
    let parts = match rng.below(5) {
        0 => 0,
        _ => rng.urange(1, 4),
    };
    for i in 0..parts {
        if i > 0 || rng.chance(1, 4) {
            s.extend_from_slice(if rng.chance(1, 6) { b"\t" } else { b" " });
        }
        match rng.below(8) {
            0 => {
                let ty = *rng.pick(&ALL_INT);
                s.extend_from_slice(&int_text(rng, ty))
            }
            1 => s.push(b'\r'), // lone CR inside a line is content
            _ => s.extend_from_slice(&str_text(rng)),
        }
    }
    if rng.chance(1, 10) {
        s.push(b' ');
    }
    if rng.chance(1, 12) {
        s.push(b'\r'); // content ends in CR: CR CR LF, or CR then end of input
    }
    s
}

/// Phase 1: the input, with hints (offset -> operation planted there).
fn gen_input(rng: &mut Rng, class: SizeClass, buf: usize, hints: &mut Vec<(usize, ROp)>) -> Vec<u8> {
    let mut out: Vec<u8> = Vec::new();

    if class == SizeClass::Long {
        // filler that ends a few bytes before a multiple of the buffer size, so that whatever
        // comes next straddles it
        let k = if rng.chance(1, 4) { 2 } else { 1 };
        // the filler ends somewhere in [k*buf - 60, k*buf + 3]: whatever comes next (or the
        // filler's own terminator) straddles the multiple of the buffer size; one time in six the
        // filler is a single token / line / separator run that is itself longer than the buffer
        let target = if rng.chance(1, 6) { k * buf + rng.urange(4, 6000) } else { (k * buf + 3).saturating_sub(rng.urange(0, 63)).max(1) };
        match rng.below(5) {
            0 => {
                // one dense run of non-whitespace bytes: read as one string, or as a vector of
                // chars (all of it, or more than a buffer's worth of it, or just short of that)
                hints.push((
                    0,
                    match rng.below(6) {
                        0 => ROp::Vec(ElemTy::Char, target),
                        1 => ROp::Vec(ElemTy::Char, (buf + rng.urange(0, 2)).min(target)),
                        2 => ROp::Vec(ElemTy::Char, target.saturating_sub(rng.urange(1, 70)).max(1)),
                        _ => ROp::Str,
                    },
                ));
                out.extend((0..target).map(|i| STR_BYTES[(i * 7 + 3) % STR_BYTES.len()]));
                // no separator: the next token may be glued, which simply lengthens this one
                if rng.chance(1, 2) {
                    out.push(b' ');
                }
            }
            1 => {
                hints.push((0, ROp::Line));
                out.extend((0..target.saturating_sub(2)).map(|i| if i % 11 == 10 { b' ' } else { STR_BYTES[(i * 5 + 1) % STR_BYTES.len()] }));
                out.extend_from_slice(if rng.chance(1, 2) { b"\r\n" } else { b"\n" });
            }
            2 => {
                let ty = *rng.pick(&ALL_INT);
                let mut n = 0usize;
                while out.len() + 42 < target {
                    out.extend_from_slice(&int_text(rng, ty));
                    out.push(if rng.chance(1, 8) { b'\n' } else { b' ' });
                    n += 1;
                }
                hints.push((0, ROp::Vec(ElemTy::Int(ty), n)));
            }
            3 => {
                // a long separator run: skip_whitespace across the boundary
                out.extend((0..target).map(|i| match i % 5 {
                    0 => b'\n',
                    1 => b'\r',
                    2 => b'\t',
                    _ => b' ',
                }));
            }
            _ => {
                // many short lines
                let start = out.len();
                while out.len() + 30 < target {
                    out.extend_from_slice(&line_content(rng));
                    out.extend_from_slice(if rng.chance(1, 3) { b"\r\n" } else { b"\n" });
                }
                let _ = start;
            }
        }
        // fillers built from whole tokens / lines stop short of the target: pad with spaces
        while out.len() < target && rng.chance(7, 8) {
            out.push(b' ');
        }
    }

    let segments = match class {
        SizeClass::Tiny => rng.urange(1, 3),
        SizeClass::Short => rng.urange(2, 12),
        SizeClass::Long => rng.urange(2, 8),
    };
    let tiny = class == SizeClass::Tiny;
    let mut unterminated = false;
    for si in 0..segments {
        let last = si + 1 == segments;
        let need_sep = out.last().map(|b| !is_ws(*b)).unwrap_or(false);
        match rng.below(if tiny { 7 } else { 10 }) {
            0 | 1 | 2 => {
                // single token
                if need_sep && !rng.chance(1, 10) {
                    gen_sep(rng, &mut out);
                }
                let ty = any_elem_ty(rng);
                let op = match ty {
                    ElemTy::Int(t) => ROp::Int(t),
                    ElemTy::Str => ROp::Str,
                    ElemTy::Char => ROp::Char,
                };
                hints.push((out.len(), op));
                out.extend_from_slice(&elem_text(rng, ty));
            }
            3 => {
                // line
                hints.push((out.len(), ROp::Line));
                out.extend_from_slice(&line_content(rng));
                if last && rng.chance(1, 2) {
                    unterminated = true;
                } else {
                    out.extend_from_slice(if rng.chance(2, 5) { b"\r\n" } else { b"\n" });
                }
            }
            4 => {
                // empty lines
                for _ in 0..rng.urange(1, 3) {
                    hints.push((out.len(), ROp::Line));
                    out.extend_from_slice(if rng.chance(2, 5) { b"\r\n" } else { b"\n" });
                }
            }
            5 => {
                // separator run
                for _ in 0..rng.urange(1, 3) {
                    gen_sep(rng, &mut out);
                }
            }
            6 => {
                // end-of-input test planted here
                hints.push((out.len(), ROp::IsEof));
                if rng.chance(1, 2) {
                    gen_sep(rng, &mut out);
                }
            }
            7 => {
                // tuple
                if need_sep {
                    gen_sep(rng, &mut out);
                }
                let k = rng.usize_below(tuple_count());
                hints.push((out.len(), ROp::Tuple(k)));
                let tys = tuple_types(k);
                for (i, ty) in tys.iter().enumerate() {
                    if i > 0 {
                        gen_sep(rng, &mut out);
                    }
                    // a char slot followed by another slot must not leave a glued tail
                    if *ty == ElemTy::Char {
                        out.push(*rng.pick(STR_BYTES));
                    } else {
                        out.extend_from_slice(&elem_text(rng, *ty));
                    }
                }
            }
            _ => {
                // vector
                if need_sep {
                    gen_sep(rng, &mut out);
                }
                let ty = match any_elem_ty(rng) {
                    ElemTy::Char => ElemTy::Str,
                    t => t,
                };
                let n = rng.urange(0, 6);
                hints.push((out.len(), ROp::Vec(ty, n)));
                for i in 0..n {
                    if i > 0 {
                        gen_sep(rng, &mut out);
                    }
                    out.extend_from_slice(&elem_text(rng, ty));
                }
            }
        }
    }
    if !unterminated {
        match rng.below(6) {
            0 | 1 => out.push(b'\n'),
            2 => out.extend_from_slice(b"\r\n"),
            3 => out.push(b'\r'), // lone CR as the very last byte
            4 => gen_sep(rng, &mut out),
            _ => {}
        }
    }
    out
}

/// Long inputs, one time in three: pad with leading whitespace so that the TOTAL length is
/// k * buf + d, d in {-1, 0, 0, 0, 1}: the stream then ends exactly where a full-buffer delivery
/// ends (end of input discovered by a read issued while the buffer is exactly full / empty).
fn pad_to_buffer_multiple(rng: &mut Rng, input: &mut Vec<u8>, hints: &mut Vec<(usize, ROp)>, buf: usize) {
    if buf == 0 {
        return;
    }
    if rng.chance(1, 2) {
        // a dense tail: n one-byte tokens with single separators and no trailing newline, so that
        // the stream ends with the minimal number of bytes a read_vec(n) / tuple read needs
        while input.last().map(|b| is_ws(*b)).unwrap_or(false) {
            input.pop();
        }
        if !input.is_empty() {
            input.push(b'\n');
        }
        let n = rng.urange(1, 8);
        let ty = *rng.pick(&[IntTy::U8, IntTy::I32, IntTy::U64, IntTy::I128, IntTy::Usize]);
        hints.retain(|h| h.0 < input.len());
        hints.push((input.len(), ROp::Vec(ElemTy::Int(ty), n)));
        for i in 0..n {
            if i > 0 {
                input.push(b' ');
            }
            input.push(b'0' + rng.below(10) as u8);
        }
    }
    let d: i64 = *rng.pick(&[-1i64, 0, 0, 0, 1]);
    let k = input.len() / buf + 1;
    let desired = (k * buf) as i64 + d;
    let extra = (desired - input.len() as i64).max(0) as usize % (buf + 2);
    if extra == 0 {
        return;
    }
    let pad: Vec<u8> = (0..extra).map(|i| if i % 97 == 96 { b'\n' } else { b' ' }).collect();
    input.splice(0..0, pad);
    for h in hints.iter_mut() {
        h.0 += extra;
    }
}

fn fitting_int_types(tok: &[u8]) -> Vec<IntTy> {
    ALL_INT.iter().copied().filter(|t| parse_int(tok, *t).is_some()).collect()
}

/// Phase 2: a lawful script, built by walking the model over the complete input.
fn gen_script(rng: &mut Rng, input: &[u8], hints: &[(usize, ROp)], max_ops: usize) -> Vec<ROp> {
    let mut script: Vec<ROp> = Vec::new();
    let mut st = ModelState::start();
    let mut after_end = 0usize;
    let end_budget = rng.urange(0, 3);
    while script.len() < max_ops {
        let pos = st.cursors[0];
        if st.cursors.iter().all(|c| *c >= input.len()) {
            if after_end >= end_budget {
                break;
            }
            after_end += 1;
        }
        let s = skip_ws(input, pos);
        let mut choice: Option<ROp> = None;
        // planted operation at this place?
        if rng.chance(4, 5) {
            if let Some((_, op)) = hints.iter().find(|(o, op)| if matches!(op, ROp::Line | ROp::IsEof) { *o == pos } else { *o == s && s < input.len() }) {
                choice = Some(op.clone());
            }
        }
        if choice.is_none() {
            let e = {
                let mut e = s;
                while e < input.len() && !is_ws(input[e]) {
                    e += 1;
                }
                e
            };
            let has_token = s < input.len();
            choice = Some(match rng.below(12) {
                0 | 1 => ROp::Line,
                2 => ROp::IsEof,
                3 if rng.chance(1, 4) => ROp::Lines,
                4 if has_token => ROp::Char,
                5 if has_token => ROp::Str,
                _ if has_token => {
                    let tys = fitting_int_types(&input[s..e]);
                    if tys.is_empty() {
                        ROp::Str
                    } else {
                        ROp::Int(*rng.pick(&tys))
                    }
                }
                _ => {
                    if rng.chance(1, 2) {
                        ROp::Line
                    } else {
                        ROp::IsEof
                    }
                }
            });
        }
        let mut op = choice.unwrap();
        let mut probe = st.clone();
        if !probe.advance_blind(input, &op) {
            // planted operation no longer fits (an earlier choice consumed part of it)
            op = if s < input.len() { ROp::Str } else { ROp::Line };
            probe = st.clone();
            if !probe.advance_blind(input, &op) {
                break;
            }
        }
        st = probe;
        script.push(op);
    }
    script
}

pub fn gen_case(rng: &mut Rng, buf: usize, class: SizeClass) -> GenOut {
    let mut hints = Vec::new();
    let mut input = gen_input(rng, class, buf, &mut hints);
    if class == SizeClass::Long && rng.chance(1, 3) {
        pad_to_buffer_multiple(rng, &mut input, &mut hints, buf);
    }
    let max_ops = match class {
        SizeClass::Tiny => 6,
        SizeClass::Short => 40,
        SizeClass::Long => 60,
    };
    let script = gen_script(rng, &input, &hints, max_ops);
    GenOut { input, script, class }
}

// ---------------------------------------------------------------------------------------------
// delivery traces

pub fn interesting_offsets(input: &[u8], buf: usize) -> Vec<usize> {
    let n = input.len();
    let mut v = Vec::new();
    for i in 1..n {
        let (a, b) = (input[i - 1], input[i]);
        if is_ws(a) != is_ws(b) || a == b'-' || a == b'\r' || a == b'\n' {
            v.push(i);
        }
    }
    if buf > 0 {
        let mut m = buf;
        while m <= n + 1 {
            for d in [m - 1, m, m + 1] {
                if d > 0 && d < n {
                    v.push(d);
                }
            }
            m += buf;
        }
    }
    if n > 1 {
        v.push(n - 1);
    }
    v.sort_unstable();
    v.dedup();
    v
}

const SCRIBBLE_BYTES: &[u8] = b"\n-7 x\r0\t";

/// Swarm configuration of one seeded trace.
pub struct TraceCfg {
    pub p_cut_num: u64, // out of 8
    pub uniform_cuts: usize,
    pub p_intr_num: u64, // out of 16, per delivery
    pub p_scribble_num: u64, // out of 4
    pub fault_at_eof: bool,
    pub small_chunks: bool,
}

pub fn gen_trace_cfg(rng: &mut Rng, faults_enabled: bool) -> TraceCfg {
    TraceCfg {
        p_cut_num: *rng.pick(&[1, 2, 4, 8]),
        uniform_cuts: rng.urange(0, 3),
        p_intr_num: if faults_enabled { *rng.pick(&[0, 1, 1, 4, 8]) } else { 0 },
        p_scribble_num: *rng.pick(&[0, 0, 1, 4]),
        fault_at_eof: faults_enabled && rng.chance(1, 2),
        small_chunks: rng.chance(1, 5),
    }
}

pub fn gen_trace(rng: &mut Rng, input: &[u8], buf: usize, cfg: &TraceCfg) -> Trace {
    let n = input.len();
    let mut cuts: Vec<usize> = Vec::new();
    if cfg.small_chunks && n <= 400 {
        let mut p = 0;
        while p < n {
            p += rng.urange(1, 4);
            if p < n {
                cuts.push(p);
            }
        }
    } else {
        let offs = interesting_offsets(input, buf);
        if offs.len() <= 64 {
            for &o in &offs {
                if rng.chance(cfg.p_cut_num, 8) {
                    cuts.push(o);
                }
            }
        } else {
            // long input: a handful of structural offsets, always those next to a buffer multiple
            for &o in &offs {
                let near = buf > 0 && (o % buf <= 1 || o % buf == buf - 1);
                if near && rng.chance(cfg.p_cut_num.max(4), 8) {
                    cuts.push(o);
                }
            }
            for _ in 0..rng.urange(0, 6) {
                cuts.push(*rng.pick(&offs));
            }
        }
        for _ in 0..cfg.uniform_cuts {
            if n > 1 {
                cuts.push(rng.urange(1, n - 1));
            }
        }
    }
    cuts.sort_unstable();
    cuts.dedup();

    let mut events: Vec<Ev> = Vec::new();
    let mut intr = |rng: &mut Rng, events: &mut Vec<Ev>, force: bool| {
        if force || (cfg.p_intr_num > 0 && rng.chance(cfg.p_intr_num, 16)) {
            // Interrupted is transient but a caller may not assume HOW transient: mostly single
            // faults, sometimes short bursts, rarely long ones (a retry loop that gives up after
            // 8, 16, 32 or 100 attempts is wrong)
            let burst = match rng.below(48) {
                0..=7 => rng.urange(3, 5),
                8..=15 => 2,
                16 => rng.urange(6, 40),
                17 if rng.chance(1, 3) => rng.urange(41, 300),
                // a retry loop with a generous bound (1000, 1024, 4096, 65535 attempts) is still bounded
                18 if rng.chance(1, 24) => *rng.pick(&[1001usize, 1025, 1100, 4097, 10_001, 65_537, 70_000]),
                _ => 1,
            };
            for _ in 0..burst {
                events.push(Ev::Intr);
            }
        }
    };
    let scrib = |rng: &mut Rng| -> Option<u8> {
        if cfg.p_scribble_num > 0 && rng.chance(cfg.p_scribble_num, 4) {
            Some(*rng.pick(SCRIBBLE_BYTES))
        } else {
            None
        }
    };
    let mut p = 0usize;
    for &c in cuts.iter().chain(std::iter::once(&n)) {
        // a delivery never exceeds the slice it is given; split long stretches ourselves so the
        // cut positions stay where they were aimed
        while c > p {
            let k = (c - p).min(buf.max(1));
            intr(rng, &mut events, false);
            events.push(Ev::Deliver { k, scribble: scrib(rng) });
            p += k;
        }
    }
    if cfg.fault_at_eof {
        intr(rng, &mut events, true); // lands on the call that would report end of input
    }
    Trace { events, rest_one: false, eof_scribble: if cfg.p_scribble_num > 0 { Some(*rng.pick(SCRIBBLE_BYTES)) } else { None } }
}

/// All chunkings of a tiny input: bit i of `mask` set = cut after byte i+1.
pub fn chunking_trace(n: usize, mask: u32, intr_before_call: Option<usize>) -> Trace {
    let mut events = Vec::new();
    let mut run = 0usize;
    for i in 0..n {
        run += 1;
        let cut = i + 1 == n || (mask >> i) & 1 == 1;
        if cut {
            events.push(Ev::Deliver { k: run, scribble: None });
            run = 0;
        }
    }
    events.push(Ev::Deliver { k: 1, scribble: None }); // the end-of-input call
    if let Some(c) = intr_before_call {
        let c = c.min(events.len() - 1);
        events.insert(c, Ev::Intr);
    }
    Trace { events, rest_one: false, eof_scribble: None }
}
