//! Reader simulation (property C08): the simulated byte source behind `Box<dyn Read>`, run
//! records, execution, oracles and minimisation.

use crate::model::*;
use crate::types::*;
use rlib_io::Reader;
use simcore::{escape_bytes, panic_message, unescape_bytes, Digest, Json};
use std::io::{self, Read};
use std::panic::{catch_unwind, AssertUnwindSafe};

// ---------------------------------------------------------------------------------------------
// delivery trace = the schedule of the source

#[derive(Clone, PartialEq, Eq, Debug)]
pub enum Ev {
    /// Hand over at most `k` bytes (at least 1 unless the input is exhausted); `scribble`
    /// overwrites part of the unused tail of the slice with that byte.
    Deliver { k: usize, scribble: Option<u8> },
    /// Fail this call with ErrorKind::Interrupted (transient by contract).
    Intr,
}

#[derive(Clone, PartialEq, Eq, Debug, Default)]
pub struct Trace {
    pub events: Vec<Ev>,
    /// Once `events` is used up: one byte per call (true) or everything that fits (false).
    pub rest_one: bool,
    /// Scribble byte used by every call that returns 0 (end of input).
    pub eof_scribble: Option<u8>,
}

impl Trace {
    pub fn whole() -> Trace {
        Trace::default()
    }
    pub fn one_byte() -> Trace {
        Trace { events: vec![], rest_one: true, eof_scribble: None }
    }
    pub fn to_json(&self) -> Json {
        // runs of Interrupted are written run-length encoded ("interrupted*1025")
        let mut evs: Vec<Json> = Vec::new();
        let mut run = 0usize;
        let flush = |evs: &mut Vec<Json>, run: &mut usize| {
            if *run == 1 {
                evs.push(Json::s("interrupted"));
            } else if *run > 1 {
                evs.push(Json::s(&format!("interrupted*{}", run)));
            }
            *run = 0;
        };
        for e in &self.events {
            match e {
                Ev::Intr => run += 1,
                Ev::Deliver { k, scribble: None } => {
                    flush(&mut evs, &mut run);
                    evs.push(Json::s(&format!("deliver:{}", k)));
                }
                Ev::Deliver { k, scribble: Some(b) } => {
                    flush(&mut evs, &mut run);
                    evs.push(Json::s(&format!("deliver:{}:scribble:{}", k, b)));
                }
            }
        }
        flush(&mut evs, &mut run);
        Json::obj()
            .with("events", Json::Arr(evs))
            .with("rest", Json::s(if self.rest_one { "one-byte-per-call" } else { "all-that-fits" }))
            .with("eof_scribble", self.eof_scribble.map(|b| Json::n(b)).unwrap_or(Json::Null))
    }
    pub fn from_json(j: &Json) -> Option<Trace> {
        let mut events = Vec::new();
        for e in j.arr_of("events")? {
            let s = e.as_str()?;
            if let Some(n) = s.strip_prefix("interrupted*") {
                for _ in 0..n.parse::<usize>().ok()? {
                    events.push(Ev::Intr);
                }
                continue;
            }
            let p: Vec<&str> = s.split(':').collect();
            events.push(match p.as_slice() {
                ["interrupted"] => Ev::Intr,
                ["deliver", k] => Ev::Deliver { k: k.parse().ok()?, scribble: None },
                ["deliver", k, "scribble", b] => Ev::Deliver { k: k.parse().ok()?, scribble: Some(b.parse().ok()?) },
                _ => return None,
            });
        }
        Some(Trace {
            events,
            rest_one: j.str_of("rest")? == "one-byte-per-call",
            eof_scribble: j.num_of("eof_scribble").map(|n| n as u8),
        })
    }
}

const SCRIBBLE_SPAN: usize = 96;

/// What the source did, as it happened (fired, not configured).
#[derive(Clone, Default, Debug)]
pub struct SourceLog {
    pub calls: usize,
    /// stream offsets at which a delivery ended strictly inside the input
    pub cuts: Vec<usize>,
    /// stream offset at which each Interrupted fired
    pub intr_at: Vec<usize>,
    pub max_burst: usize,
    pub eof_calls: usize,
    pub scribbles: usize,
    pub slice_len_first: usize,
    pub min_slice_len: usize,
    pub livelock: bool,
}

pub struct SimSource<'d> {
    data: &'d [u8],
    pos: usize,
    trace: &'d Trace,
    ev: usize,
    burst: usize,
    max_calls: usize,
    pub log: SourceLog,
}

impl<'d> SimSource<'d> {
    pub fn new(data: &'d [u8], trace: &'d Trace, ops: usize) -> Self {
        let faults = trace.events.iter().filter(|e| matches!(e, Ev::Intr)).count();
        SimSource {
            data,
            pos: 0,
            trace,
            ev: 0,
            burst: 0,
            // every call of a live reader delivers a byte, is a fault, or sees end of input;
            // a reader may ask again at end of input once per operation, not forever
            max_calls: data.len() + faults + 2 * ops + 8,
            log: SourceLog { min_slice_len: usize::MAX, ..Default::default() },
        }
    }
}

impl Read for SimSource<'_> {
    fn read(&mut self, buf: &mut [u8]) -> io::Result<usize> {
        self.log.calls += 1;
        if self.log.calls == 1 {
            self.log.slice_len_first = buf.len();
        }
        self.log.min_slice_len = self.log.min_slice_len.min(buf.len());
        if self.log.calls > self.max_calls {
            self.log.livelock = true;
            panic!("SIM-LIVENESS: reader keeps calling read ({} calls for {} input bytes)", self.log.calls, self.data.len());
        }
        let ev = if self.ev < self.trace.events.len() {
            self.ev += 1;
            self.trace.events[self.ev - 1].clone()
        } else {
            Ev::Deliver { k: if self.trace.rest_one { 1 } else { usize::MAX }, scribble: None }
        };
        match ev {
            Ev::Intr => {
                self.burst += 1;
                self.log.max_burst = self.log.max_burst.max(self.burst);
                self.log.intr_at.push(self.pos);
                Err(io::Error::from(io::ErrorKind::Interrupted))
            }
            Ev::Deliver { k, scribble } => {
                self.burst = 0;
                let remaining = self.data.len() - self.pos;
                let n = k.max(1).min(remaining).min(buf.len());
                buf[..n].copy_from_slice(&self.data[self.pos..self.pos + n]);
                self.pos += n;
                let scribble = if n == 0 && buf.len() > 0 { scribble.or(self.trace.eof_scribble) } else { scribble };
                if let Some(b) = scribble {
                    let end = buf.len().min(n + SCRIBBLE_SPAN);
                    if n < end {
                        for x in &mut buf[n..end] {
                            *x = b;
                        }
                        self.log.scribbles += 1;
                    }
                }
                if n == 0 {
                    self.log.eof_calls += 1;
                } else if self.pos < self.data.len() {
                    self.log.cuts.push(self.pos);
                }
                Ok(n)
            }
        }
    }
}

// ---------------------------------------------------------------------------------------------
// execution of one (input, script, trace) against the real Reader

#[derive(Clone, Debug)]
pub struct ExecOut {
    pub results: Vec<String>,
    pub panicked: Option<String>,
    pub log: SourceLog,
}

pub fn run_op(r: &mut Reader, op: &ROp) -> String {
    match op {
        ROp::Int(t) => read_int(r, *t),
        ROp::Str => read_elem(r, ElemTy::Str),
        ROp::Char => read_elem(r, ElemTy::Char),
        ROp::Tuple(k) => read_any_tuple(r, *k),
        ROp::Vec(t, n) => read_vec(r, *t, *n),
        ROp::Line => match r.read_line() {
            Some(s) => format!("line:Some({})", escape_bytes(s.as_bytes())),
            None => "line:None".to_string(),
        },
        ROp::Lines => {
            let ls = r.read_lines();
            format!("lines:[{}]", ls.iter().map(|s| format!("Some({})", escape_bytes(s.as_bytes()))).collect::<Vec<_>>().join(","))
        }
        ROp::IsEof => format!("eof:{}", r.is_eof()),
    }
}

pub fn exec(input: &[u8], script: &[ROp], trace: &Trace) -> ExecOut {
    let mut source = SimSource::new(input, trace, script.len());
    let mut results: Vec<String> = Vec::with_capacity(script.len());
    let outcome = {
        let src = &mut source;
        let res = &mut results;
        catch_unwind(AssertUnwindSafe(move || {
            let mut reader = Reader::new(Box::new(src));
            for op in script {
                let r = run_op(&mut reader, op);
                res.push(r);
            }
        }))
    };
    ExecOut { results, panicked: outcome.err().map(|e| panic_message(&*e)), log: source.log }
}

// ---------------------------------------------------------------------------------------------
// run record + oracles

#[derive(Clone, Debug)]
pub struct RRecord {
    pub input: Vec<u8>,
    pub script: Vec<ROp>,
    pub traces: Vec<Trace>,
}

impl RRecord {
    pub fn to_json(&self) -> Json {
        Json::obj()
            .with("engine", Json::s("iosim-reader"))
            .with("property", Json::s("C08"))
            .with("input", Json::s(&escape_bytes(&self.input)))
            .with("input_len", Json::u(self.input.len()))
            .with("script", Json::Arr(self.script.iter().map(|o| o.to_json()).collect()))
            .with("traces", Json::Arr(self.traces.iter().map(|t| t.to_json()).collect()))
    }
    pub fn from_json(j: &Json) -> Option<RRecord> {
        Some(RRecord {
            input: unescape_bytes(j.str_of("input")?),
            script: j.arr_of("script")?.iter().map(|o| o.as_str().and_then(ROp::decode)).collect::<Option<Vec<_>>>()?,
            traces: j.arr_of("traces")?.iter().map(Trace::from_json).collect::<Option<Vec<_>>>()?,
        })
    }
}

#[derive(Clone, Debug)]
pub struct Violation {
    /// "panic" | "model" | "schedule" | "liveness"
    pub oracle: &'static str,
    pub op_kind: String,
    pub op_index: usize,
    pub trace_index: usize,
    pub detail: String,
}

impl Violation {
    /// Class used by the minimiser and by known-findings matching: which oracle fired, on which
    /// kind of operation, and (for panics) the panic message with digits blanked.
    pub fn class(&self) -> String {
        let d = match self.oracle {
            "panic" => {
                let m: String = self.detail.chars().map(|c| if c.is_ascii_digit() { '#' } else { c }).collect();
                m.chars().take(90).collect()
            }
            _ => String::new(),
        };
        format!("reader/{}/{}/{}", self.oracle, self.op_kind, d)
    }
    pub fn to_json(&self) -> Json {
        Json::obj()
            .with("oracle", Json::s(self.oracle))
            .with("op_kind", Json::s(&self.op_kind))
            .with("op_index", Json::u(self.op_index))
            .with("trace_index", Json::u(self.trace_index))
            .with("class", Json::s(&self.class()))
            .with("detail", Json::s(&self.detail))
    }
}

pub struct CheckOut {
    pub violation: Option<Violation>,
    pub outs: Vec<ExecOut>,
}

fn trunc(s: &str) -> String {
    if s.len() > 300 {
        format!("{}...({} bytes)", &s[..300], s.len())
    } else {
        s.to_string()
    }
}

/// Executes the record under all its traces and applies the oracles.  The caller guarantees
/// the script is lawful on the input (see `model::lawful`).
pub fn check(rec: &RRecord) -> CheckOut {
    let mut outs: Vec<ExecOut> = Vec::with_capacity(rec.traces.len());
    let mut violation: Option<Violation> = None;
    for (ti, tr) in rec.traces.iter().enumerate() {
        let out = exec(&rec.input, &rec.script, tr);
        if violation.is_none() {
            // oracle 1: reference model, operation by operation
            let mut st = ModelState::start();
            for (i, got) in out.results.iter().enumerate() {
                if let Err(expected) = st.advance(&rec.input, &rec.script[i], got) {
                    violation = Some(Violation {
                        oracle: "model",
                        op_kind: rec.script[i].kind().to_string(),
                        op_index: i,
                        trace_index: ti,
                        detail: format!("operation {} ({}) returned {} but the input bytes determine {}", i, rec.script[i].encode(), trunc(got), trunc(&expected.join(" or "))),
                    });
                    break;
                }
            }
        }
        if violation.is_none() {
            if let Some(msg) = &out.panicked {
                let i = out.results.len();
                let kind = rec.script.get(i).map(|o| o.kind()).unwrap_or("none").to_string();
                violation = Some(Violation {
                    oracle: if out.log.livelock { "liveness" } else { "panic" },
                    op_kind: kind,
                    op_index: i,
                    trace_index: ti,
                    detail: msg.clone(),
                });
            }
        }
        if violation.is_none() && ti > 0 {
            // oracle 2: schedule independence, the property verbatim
            let base = &outs[0].results;
            if let Some(i) = (0..base.len().max(out.results.len())).find(|&i| base.get(i) != out.results.get(i)) {
                violation = Some(Violation {
                    oracle: "schedule",
                    op_kind: rec.script.get(i).map(|o| o.kind()).unwrap_or("none").to_string(),
                    op_index: i,
                    trace_index: ti,
                    detail: format!(
                        "operation {} ({}) returned {} under trace 0 but {} under trace {}: same bytes, different delivery",
                        i,
                        rec.script.get(i).map(|o| o.encode()).unwrap_or_default(),
                        trunc(base.get(i).map(|s| s.as_str()).unwrap_or("<nothing>")),
                        trunc(out.results.get(i).map(|s| s.as_str()).unwrap_or("<nothing>")),
                        ti
                    ),
                });
            }
        }
        outs.push(out);
    }
    CheckOut { violation, outs }
}

// ---------------------------------------------------------------------------------------------
// minimisation: greedy delta debugging on the record while the violation class persists

/// Removing input bytes a..b: keep every later cut where it was relative to the bytes by
/// shrinking the delivery that covered the removed range (when one delivery covers it entirely).
fn drain_with_traces(rec: &RRecord, a: usize, b: usize) -> RRecord {
    let mut cand = rec.clone();
    cand.input.drain(a..b);
    for t in &mut cand.traces {
        let mut off = 0usize;
        for i in 0..t.events.len() {
            if let Ev::Deliver { k, scribble } = t.events[i].clone() {
                let k_eff = k.min(rec.input.len() - off.min(rec.input.len()));
                if a >= off && b <= off + k_eff {
                    let nk = k_eff - (b - a);
                    if nk == 0 {
                        t.events.remove(i);
                    } else {
                        t.events[i] = Ev::Deliver { k: nk, scribble };
                    }
                    break;
                }
                off += k_eff;
                if off > a {
                    break;
                }
            }
        }
    }
    cand
}

pub fn minimise(rec: &RRecord, class: &str, budget: usize) -> (RRecord, usize) {
    let mut best = rec.clone();
    let mut evals = 0usize;
    // wall-clock cap per violation class: minimisation is a convenience, the verdict does not
    // depend on it (long inputs in the debug profile cost a tenth of a second per candidate)
    let deadline = std::time::Instant::now() + std::time::Duration::from_secs(25);
    let mut still = |cand: &RRecord, evals: &mut usize| -> Option<Violation> {
        if *evals >= budget || std::time::Instant::now() > deadline {
            return None;
        }
        if !lawful(&cand.input, &cand.script) {
            return None;
        }
        *evals += 1;
        check(cand).violation.filter(|v| v.class() == class)
    };

    // 0. keep only the traces that matter
    if let Some(v) = still(&best, &mut evals) {
        let mut cand = best.clone();
        cand.traces = if v.oracle == "schedule" { vec![best.traces[0].clone(), best.traces[v.trace_index].clone()] } else { vec![best.traces[v.trace_index].clone()] };
        if still(&cand, &mut evals).is_some() {
            best = cand;
        }
        // for a schedule violation the reference trace can usually become "whole"
        if best.traces.len() == 2 {
            let mut cand = best.clone();
            cand.traces[0] = Trace::whole();
            if still(&cand, &mut evals).is_some() {
                best = cand;
            }
        }
    }

    loop {
        let before = (best.input.len(), best.script.len(), best.traces.iter().map(|t| t.events.len()).sum::<usize>());

        // 1. cut the script right after the violating operation, then drop earlier operations
        if let Some(v) = still(&best, &mut evals) {
            if v.op_index + 1 < best.script.len() {
                let mut cand = best.clone();
                cand.script.truncate(v.op_index + 1);
                if still(&cand, &mut evals).is_some() {
                    best = cand;
                }
            }
        }
        let mut i = 0;
        while i < best.script.len() {
            let mut cand = best.clone();
            cand.script.remove(i);
            if still(&cand, &mut evals).is_some() {
                best = cand;
            } else {
                i += 1;
            }
        }
        // drop an operation together with the input bytes it consumes (canonical model path)
        let mut i = 0;
        while i < best.script.len() {
            let mut pos = 0usize;
            let mut span: Option<(usize, usize)> = None;
            for (k, op) in best.script.iter().enumerate() {
                let c = step(&best.input, pos, op);
                if c.is_empty() {
                    break;
                }
                if k == i {
                    span = Some((pos, c[0].1));
                    break;
                }
                pos = c[0].1;
            }
            let mut dropped = false;
            if let Some((a, b)) = span {
                if b > a {
                    let mut cand = drain_with_traces(&best, a, b);
                    cand.script.remove(i);
                    if still(&cand, &mut evals).is_some() {
                        best = cand;
                        dropped = true;
                    } else {
                        let mut cand = best.clone();
                        cand.script.remove(i);
                        cand.input.drain(a..b);
                        if still(&cand, &mut evals).is_some() {
                            best = cand;
                            dropped = true;
                        }
                    }
                }
            }
            if !dropped {
                i += 1;
            }
        }
        // simplify composite operations
        for i in 0..best.script.len() {
            if let ROp::Vec(t, n) = best.script[i].clone() {
                let mut m = n;
                while m > 0 {
                    let mut cand = best.clone();
                    cand.script[i] = ROp::Vec(t, m / 2);
                    if still(&cand, &mut evals).is_some() {
                        best = cand;
                        m /= 2;
                    } else {
                        break;
                    }
                }
            }
        }

        // 2. shrink the input: remove windows of decreasing size
        let mut w = (best.input.len() / 2).max(1);
        loop {
            let mut start = 0;
            while start < best.input.len() {
                let end = (start + w).min(best.input.len());
                let cand = drain_with_traces(&best, start, end);
                if still(&cand, &mut evals).is_some() {
                    best = cand;
                    continue;
                }
                let mut cand = best.clone();
                cand.input.drain(start..end);
                if still(&cand, &mut evals).is_some() {
                    best = cand;
                } else {
                    start += w;
                }
            }
            if w == 1 {
                break;
            }
            w /= 2;
        }
        // simplify bytes: letters -> 'a', digits -> '1' where the violation persists
        if best.input.len() <= 64 {
            for i in 0..best.input.len() {
                let b = best.input[i];
                let repl = if b.is_ascii_digit() && b != b'1' {
                    Some(b'1')
                } else if b.is_ascii_graphic() && !b.is_ascii_digit() && b != b'-' && b != b'a' {
                    Some(b'a')
                } else {
                    None
                };
                if let Some(r) = repl {
                    let mut cand = best.clone();
                    cand.input[i] = r;
                    if still(&cand, &mut evals).is_some() {
                        best = cand;
                    }
                }
            }
        }

        // 3. simplify the traces
        for ti in 0..best.traces.len() {
            if best.traces[ti].rest_one {
                let mut cand = best.clone();
                cand.traces[ti].rest_one = false;
                if still(&cand, &mut evals).is_some() {
                    best = cand;
                }
            }
            if best.traces[ti].eof_scribble.is_some() {
                let mut cand = best.clone();
                cand.traces[ti].eof_scribble = None;
                if still(&cand, &mut evals).is_some() {
                    best = cand;
                }
            }
            // truncate the event list from the end (the rest policy takes over)
            while !best.traces[ti].events.is_empty() {
                let mut cand = best.clone();
                cand.traces[ti].events.pop();
                if still(&cand, &mut evals).is_some() {
                    best = cand;
                } else {
                    break;
                }
            }
            let mut i = 0;
            while i < best.traces[ti].events.len() {
                let mut cand = best.clone();
                cand.traces[ti].events.remove(i);
                if still(&cand, &mut evals).is_some() {
                    best = cand;
                    continue;
                }
                // merge this delivery into the next one
                if let (Some(Ev::Deliver { k: a, .. }), Some(Ev::Deliver { k: b, scribble })) = (best.traces[ti].events.get(i).cloned(), best.traces[ti].events.get(i + 1).cloned()) {
                    let mut cand = best.clone();
                    cand.traces[ti].events[i] = Ev::Deliver { k: a.saturating_add(b), scribble };
                    cand.traces[ti].events.remove(i + 1);
                    if still(&cand, &mut evals).is_some() {
                        best = cand;
                        continue;
                    }
                }
                if let Some(Ev::Deliver { k, scribble: Some(_) }) = best.traces[ti].events.get(i).cloned() {
                    let mut cand = best.clone();
                    cand.traces[ti].events[i] = Ev::Deliver { k, scribble: None };
                    if still(&cand, &mut evals).is_some() {
                        best = cand;
                    }
                }
                i += 1;
            }
        }

        let after = (best.input.len(), best.script.len(), best.traces.iter().map(|t| t.events.len()).sum::<usize>());
        if after == before || evals >= budget || std::time::Instant::now() > deadline {
            break;
        }
    }
    (best, evals)
}

// ---------------------------------------------------------------------------------------------
// reach probes, computed from what the source actually did

pub const RPROBES: &[&str] = &[
    "cut_inside_digits",
    "cut_between_minus_and_digit",
    "cut_between_cr_and_lf",
    "cut_after_lone_cr",
    "cut_inside_string_token",
    "cut_token_to_separator",
    "cut_separator_to_token",
    "cut_inside_separator_run",
    "cut_at_buffer_multiple",
    "token_spans_buffer_multiple",
    "lone_cr_is_last_byte",
    "interrupted_on_first_call",
    "interrupted_mid_token",
    "interrupted_between_cr_and_lf",
    "interrupted_on_eof_call",
    "interrupted_burst_ge_3",
    "interrupted_burst_ge_33",
    "scribble_fired",
    "scribble_on_eof_call",
    "one_byte_at_a_time_whole_input",
    "is_eof_before_any_read",
    "is_eof_mid_stream",
    "is_eof_at_end",
    "read_line_after_token_same_line",
    "ops_after_end_of_input",
    "line_crlf",
    "line_unterminated_last",
    "line_empty",
    "int_extreme_value",
    "int_minus_zero_or_leading_zero",
    "tuple_read",
    "vec_read",
    "exhaustive_chunkings_input",
];

pub fn probe_index(name: &str) -> usize {
    RPROBES.iter().position(|n| *n == name).unwrap_or_else(|| panic!("harness: unknown probe {}", name))
}

/// Probes that depend on one execution (delivery dependent).
pub fn delivery_probes(input: &[u8], trace: &Trace, out: &ExecOut, buf: usize, hit: &mut dyn FnMut(&'static str)) {
    let n = input.len();
    for &c in &out.log.cuts {
        if c == 0 || c >= n {
            continue;
        }
        let (a, b) = (input[c - 1], input[c]);
        if a.is_ascii_digit() && b.is_ascii_digit() {
            hit("cut_inside_digits");
        }
        if a == b'-' && b.is_ascii_digit() {
            hit("cut_between_minus_and_digit");
        }
        if a == b'\r' && b == b'\n' {
            hit("cut_between_cr_and_lf");
        }
        if a == b'\r' && b != b'\n' {
            hit("cut_after_lone_cr");
        }
        if !is_ws(a) && !is_ws(b) && !(a.is_ascii_digit() && b.is_ascii_digit()) {
            hit("cut_inside_string_token");
        }
        if !is_ws(a) && is_ws(b) {
            hit("cut_token_to_separator");
        }
        if is_ws(a) && !is_ws(b) {
            hit("cut_separator_to_token");
        }
        if is_ws(a) && is_ws(b) {
            hit("cut_inside_separator_run");
        }
        if buf > 0 && c % buf == 0 {
            hit("cut_at_buffer_multiple");
            if !is_ws(a) && !is_ws(b) {
                hit("token_spans_buffer_multiple");
            }
        }
    }
    for (i, &p) in out.log.intr_at.iter().enumerate() {
        if i == 0 && p == 0 && out.log.cuts.first().map(|c| *c > 0).unwrap_or(true) && trace.events.first() == Some(&Ev::Intr) {
            hit("interrupted_on_first_call");
        }
        if p > 0 && p < n {
            let (a, b) = (input[p - 1], input[p]);
            if !is_ws(a) && !is_ws(b) {
                hit("interrupted_mid_token");
            }
            if a == b'\r' && b == b'\n' {
                hit("interrupted_between_cr_and_lf");
            }
        }
        if p == n {
            hit("interrupted_on_eof_call");
        }
    }
    if out.log.max_burst >= 3 {
        hit("interrupted_burst_ge_3");
    }
    if out.log.max_burst >= 33 {
        hit("interrupted_burst_ge_33");
    }
    if out.log.scribbles > 0 {
        hit("scribble_fired");
        if trace.eof_scribble.is_some() && out.log.eof_calls > 0 {
            hit("scribble_on_eof_call");
        }
    }
    if trace.rest_one && trace.events.is_empty() && n > 1 && out.log.cuts.len() == n - 1 {
        hit("one_byte_at_a_time_whole_input");
    }
}

/// Probes that depend on (input, script) only; computed along the canonical model path.
pub fn script_probes(input: &[u8], script: &[ROp], hit: &mut dyn FnMut(&'static str)) {
    if input.last() == Some(&b'\r') {
        hit("lone_cr_is_last_byte");
    }
    let mut pos = 0usize;
    let mut prev_token = false;
    for (i, op) in script.iter().enumerate() {
        let cands = step(input, pos, op);
        if cands.is_empty() {
            return;
        }
        let (res, np) = cands[0].clone();
        if pos >= input.len() {
            hit("ops_after_end_of_input");
        }
        match op {
            ROp::IsEof => {
                if i == 0 {
                    hit("is_eof_before_any_read");
                }
                if res == "eof:true" {
                    hit("is_eof_at_end");
                } else if pos > 0 {
                    hit("is_eof_mid_stream");
                }
            }
            ROp::Line => {
                if prev_token && pos > 0 && pos < input.len() && input[pos - 1] != b'\n' {
                    hit("read_line_after_token_same_line");
                }
                if np >= 2 && np <= input.len() && input[np - 1] == b'\n' && input[np - 2] == b'\r' {
                    hit("line_crlf");
                }
                if res != "line:None" && np == input.len() && input.last() != Some(&b'\n') {
                    hit("line_unterminated_last");
                }
                if res == "line:Some()" {
                    hit("line_empty");
                }
            }
            ROp::Int(t) => {
                let s = skip_ws(input, pos);
                if let Some(v) = parse_int(&input[s..np], *t) {
                    if (v.neg && v.mag == t.min_mag()) || (!v.neg && v.mag == t.max_mag()) {
                        hit("int_extreme_value");
                    }
                    if (v.neg && v.mag == 0) || (np - s > 1 && input[s + v.neg as usize] == b'0') {
                        hit("int_minus_zero_or_leading_zero");
                    }
                }
            }
            ROp::Tuple(_) => hit("tuple_read"),
            ROp::Vec(..) => hit("vec_read"),
            _ => {}
        }
        prev_token = matches!(op, ROp::Int(_) | ROp::Str | ROp::Char | ROp::Tuple(_) | ROp::Vec(..));
        pos = np;
    }
}

/// Interleaving digest of one execution: input structure (byte classes) plus where deliveries
/// ended and where faults fired.  Two executions with equal digests exercised the Reader with
/// the same cut/fault placement relative to the same token/separator structure.
pub fn interleaving_digest(input: &[u8], out: &ExecOut) -> u64 {
    let mut d = Digest::new();
    for &b in input {
        d.byte(match b {
            b'0'..=b'9' => b'd',
            b'-' => b'-',
            b' ' | b'\t' => b' ',
            b'\n' => b'n',
            b'\r' => b'r',
            _ => b'x',
        });
    }
    d.byte(0xfe);
    for &c in &out.log.cuts {
        d.word(c as u64);
    }
    d.byte(0xfd);
    for &p in &out.log.intr_at {
        d.word(p as u64);
    }
    d.finish()
}

pub fn nontrivial(out: &ExecOut) -> bool {
    !out.log.cuts.is_empty() || !out.log.intr_at.is_empty()
}
