//! Writer simulation (property C09): the simulated sink behind `Box<dyn Write>`, run records,
//! execution against the real Writer, oracles (continuous prefix invariant, exactness after
//! flush/drop, round trip through the real Reader) and minimisation.

use crate::model::ROp;
use crate::rsim::{self, Trace};
use crate::types::*;
#[allow(unused_imports)]
use rlib_io::make_output_macro_;
use rlib_io::{Reader, Writable, Writer};
use simcore::{escape_bytes, panic_message, unescape_bytes, Json};
use std::cell::RefCell;
use std::io::{self, Write};
use std::panic::{catch_unwind, AssertUnwindSafe};
use std::rc::Rc;

// ---------------------------------------------------------------------------------------------
// script

#[derive(Clone, PartialEq, Eq, Debug)]
pub enum WOp {
    Int(Val),
    /// `write(&&str)` (as_string = false) or `write(&String)`
    Str(Vec<u8>, bool),
    /// A long deterministic ASCII string of `len` bytes (kept symbolic so that records stay
    /// small); written as `&str`.  `ws_free` strings contain no whitespace.
    Fill { len: usize, salt: u8, string: bool },
    Char(u8),
    Vec(ElemTy, Vec<Val>),
    Tuple(usize, Vec<Val>),
    /// `out!` / `outln!` expansions: kind selects a fixed statement, vals are its arguments
    Macro(usize, Vec<Val>),
    /// nested containers: 0 = Vec<Vec<i64>>, 1 = Vec<(i32, String)>, 2 = (Vec<u8>, i32) with
    /// groups = [vector, [int]], 3 = Vec<Vec<String>>, 4 = a user-defined Writable (u32, i64),
    /// 5 = a vector of those, 6 = a user-defined Writable (String, u64)
    Nested(usize, Vec<Vec<Val>>),
    Flush,
}

/// A caller's own composite type: fields written through their own `Writable::write`, separators
/// through `write_char` - no call of `Writer::write` in between.
pub struct UserEdge {
    pub u: u32,
    pub v: i64,
}
impl Writable for UserEdge {
    fn write(&self, writer: &mut Writer) {
        self.u.write(writer);
        writer.write_char(' ');
        self.v.write(writer);
    }
}
pub struct UserTagged {
    pub name: String,
    pub x: u64,
}
impl Writable for UserTagged {
    fn write(&self, writer: &mut Writer) {
        self.name.write(writer);
        writer.write_char(' ');
        self.x.write(writer);
    }
}

pub fn fill_bytes(len: usize, salt: u8) -> Vec<u8> {
    const ALPHA: &[u8] = b"abcdefghijklmnopqrstuvwxyzABCDEFGHIJKLMNOPQRSTUVWXYZ0123456789-_";
    (0..len).map(|i| ALPHA[(i.wrapping_mul(31).wrapping_add(salt as usize * 7).wrapping_add(i >> 6)) % ALPHA.len()]).collect()
}

/// The fixed `out!`/`outln!` statements: argument types of each kind.
pub const MACRO_KINDS: &[&[ElemTy]] = &[
    &[ElemTy::Int(IntTy::I32), ElemTy::Str, ElemTy::Int(IntTy::U64)], // outln!(a, b, c)
    &[ElemTy::Int(IntTy::I64)],                                        // out!(a)
    &[],                                                               // outln!()
    &[ElemTy::Str, ElemTy::Int(IntTy::I128), ElemTy::Int(IntTy::I8), ElemTy::Int(IntTy::U8)], // outln!(a, b, c, d)
    &[ElemTy::Int(IntTy::Usize), ElemTy::Int(IntTy::Isize)],          // out!(a, b)
];

impl WOp {
    pub fn kind(&self) -> &'static str {
        match self {
            WOp::Int(_) => "int",
            WOp::Str(..) => "str",
            WOp::Fill { .. } => "fill",
            WOp::Char(_) => "char",
            WOp::Vec(..) => "vec",
            WOp::Tuple(..) => "tuple",
            WOp::Macro(..) => "macro",
            WOp::Nested(..) => "nested",
            WOp::Flush => "flush",
        }
    }

    /// Bytes the model says this operation contributes to the stream.
    pub fn rendering(&self) -> Vec<u8> {
        fn joined(vals: &[Val]) -> Vec<u8> {
            let mut out = Vec::new();
            for (i, v) in vals.iter().enumerate() {
                if i > 0 {
                    out.push(b' ');
                }
                out.extend_from_slice(&v.rendering());
            }
            out
        }
        match self {
            WOp::Int(v) => v.rendering(),
            WOp::Str(s, _) => s.clone(),
            WOp::Fill { len, salt, .. } => fill_bytes(*len, *salt),
            WOp::Char(c) => vec![*c],
            WOp::Vec(_, vals) => joined(vals),
            WOp::Tuple(_, vals) => joined(vals),
            WOp::Macro(kind, vals) => {
                let mut out = joined(vals);
                if matches!(kind, 0 | 2 | 3) {
                    out.push(b'\n');
                }
                out
            }
            WOp::Nested(_, groups) => {
                let mut out = Vec::new();
                for (i, g) in groups.iter().enumerate() {
                    if i > 0 {
                        out.push(b' ');
                    }
                    out.extend_from_slice(&joined(g));
                }
                out
            }
            WOp::Flush => vec![],
        }
    }

    pub fn to_json(&self) -> Json {
        let vals = |vs: &Vec<Val>| Json::Arr(vs.iter().map(|v| v.to_json()).collect());
        match self {
            WOp::Int(v) => Json::obj().with("op", Json::s("int")).with("v", v.to_json()),
            WOp::Str(s, st) => Json::obj().with("op", Json::s(if *st { "string" } else { "str" })).with("v", Json::s(&escape_bytes(s))),
            WOp::Fill { len, salt, string } => Json::obj().with("op", Json::s(if *string { "fill_string" } else { "fill" })).with("len", Json::u(*len)).with("salt", Json::n(*salt)),
            WOp::Char(c) => Json::obj().with("op", Json::s("char")).with("v", Json::s(&escape_bytes(&[*c]))),
            WOp::Vec(t, vs) => Json::obj().with("op", Json::s("vec")).with("ty", Json::s(&t.name())).with("v", vals(vs)),
            WOp::Tuple(k, vs) => Json::obj().with("op", Json::s("tuple")).with("k", Json::u(*k)).with("v", vals(vs)),
            WOp::Macro(k, vs) => Json::obj().with("op", Json::s("macro")).with("k", Json::u(*k)).with("v", vals(vs)),
            WOp::Nested(k, groups) => Json::obj().with("op", Json::s("nested")).with("k", Json::u(*k)).with("groups", Json::Arr(groups.iter().map(|g| Json::Arr(g.iter().map(|v| v.to_json()).collect())).collect())),
            WOp::Flush => Json::obj().with("op", Json::s("flush")),
        }
    }
    pub fn from_json(j: &Json) -> Option<WOp> {
        let vals = |j: &Json| -> Option<Vec<Val>> { j.arr_of("v")?.iter().map(Val::from_json).collect() };
        Some(match j.str_of("op")? {
            "int" => WOp::Int(Val::from_json(j.get("v")?)?),
            "str" => WOp::Str(unescape_bytes(j.str_of("v")?), false),
            "string" => WOp::Str(unescape_bytes(j.str_of("v")?), true),
            "fill" => WOp::Fill { len: j.num_of("len")? as usize, salt: j.num_of("salt")? as u8, string: false },
            "fill_string" => WOp::Fill { len: j.num_of("len")? as usize, salt: j.num_of("salt")? as u8, string: true },
            "char" => WOp::Char(*unescape_bytes(j.str_of("v")?).first()?),
            "vec" => WOp::Vec(ElemTy::from_name(j.str_of("ty")?)?, vals(j)?),
            "tuple" => {
                let k = j.num_of("k")? as usize;
                let v = vals(j)?;
                if k >= TUPLES.len() || v.len() != TUPLES[k].len() {
                    return None;
                }
                WOp::Tuple(k, v)
            }
            "macro" => {
                let k = j.num_of("k")? as usize;
                let v = vals(j)?;
                if k >= MACRO_KINDS.len() || v.len() != MACRO_KINDS[k].len() {
                    return None;
                }
                WOp::Macro(k, v)
            }
            "nested" => {
                let k = j.num_of("k")? as usize;
                let groups: Vec<Vec<Val>> = j.arr_of("groups")?.iter().map(|g| g.as_arr().and_then(|a| a.iter().map(Val::from_json).collect::<Option<Vec<_>>>())).collect::<Option<Vec<_>>>()?;
                if !nested_shape_ok(k, &groups) {
                    return None;
                }
                WOp::Nested(k, groups)
            }
            "flush" => WOp::Flush,
            _ => return None,
        })
    }
}

/// Does `groups` have the shape nested kind `k` needs (so that building the typed value cannot fail)?
pub fn nested_shape_ok(k: usize, groups: &[Vec<Val>]) -> bool {
    let is_int = |v: &Val, t: IntTy| matches!(v, Val::Int(iv) if iv.ty == t);
    let is_str = |v: &Val| matches!(v, Val::Str(_));
    match k {
        0 => groups.iter().all(|g| g.iter().all(|v| is_int(v, IntTy::I64))),
        1 => groups.iter().all(|g| g.len() == 2 && is_int(&g[0], IntTy::I32) && is_str(&g[1])),
        2 => groups.len() == 2 && groups[0].iter().all(|v| is_int(v, IntTy::U8)) && groups[1].len() == 1 && is_int(&groups[1][0], IntTy::I32),
        3 => groups.iter().all(|g| g.iter().all(is_str)),
        4 => groups.len() == 1 && groups[0].len() == 2 && is_int(&groups[0][0], IntTy::U32) && is_int(&groups[0][1], IntTy::I64),
        5 => groups.iter().all(|g| g.len() == 2 && is_int(&g[0], IntTy::U32) && is_int(&g[1], IntTy::I64)),
        6 => groups.len() == 1 && groups[0].len() == 2 && is_str(&groups[0][0]) && is_int(&groups[0][1], IntTy::U64),
        _ => false,
    }
}

// ---------------------------------------------------------------------------------------------
// acceptance trace = the schedule of the sink

#[derive(Clone, PartialEq, Eq, Debug)]
pub enum WEv {
    /// Accept at most `k` bytes of the offered slice (at least 1).
    Accept(usize),
    /// Accept everything but the last byte of the offered slice.
    AllButOne,
    /// Fail this call with ErrorKind::Interrupted.
    Intr,
}

#[derive(Clone, PartialEq, Eq, Debug, Default)]
pub struct WTrace {
    pub events: Vec<WEv>,
    /// Once `events` is used up: accept at most this many bytes per call (0 = everything).
    pub rest_max: usize,
}

impl WTrace {
    pub fn to_json(&self) -> Json {
        Json::obj()
            .with("events", Json::Arr(self.events_rle()))
            .with("rest_max", Json::u(self.rest_max))
    }
    /// runs of Interrupted are written run-length encoded ("interrupted*1025")
    fn events_rle(&self) -> Vec<Json> {
        let mut out: Vec<Json> = Vec::new();
        let mut run = 0usize;
        let flush = |out: &mut Vec<Json>, run: &mut usize| {
            if *run == 1 {
                out.push(Json::s("interrupted"));
            } else if *run > 1 {
                out.push(Json::s(&format!("interrupted*{}", run)));
            }
            *run = 0;
        };
        for e in &self.events {
            match e {
                WEv::Intr => run += 1,
                WEv::Accept(k) => {
                    flush(&mut out, &mut run);
                    out.push(Json::s(&format!("accept:{}", k)));
                }
                WEv::AllButOne => {
                    flush(&mut out, &mut run);
                    out.push(Json::s("accept-all-but-one"));
                }
            }
        }
        flush(&mut out, &mut run);
        out
    }
    pub fn from_json(j: &Json) -> Option<WTrace> {
        let mut events = Vec::new();
        for e in j.arr_of("events")? {
            let s = e.as_str()?;
            if let Some(n) = s.strip_prefix("interrupted*") {
                for _ in 0..n.parse::<usize>().ok()? {
                    events.push(WEv::Intr);
                }
                continue;
            }
            events.push(if s == "interrupted" { WEv::Intr } else if s == "accept-all-but-one" { WEv::AllButOne } else { WEv::Accept(s.strip_prefix("accept:")?.parse().ok()?) });
        }
        Some(WTrace { events, rest_max: j.num_of("rest_max")? as usize })
    }
}

#[derive(Clone, Default, Debug)]
pub struct SinkLog {
    pub calls: usize,
    /// first calls, as (offered, accepted) with accepted = usize::MAX for Interrupted
    pub first_calls: Vec<(usize, usize)>,
    /// sizes of the first accepted chunks, in order (the pipe's packetisation)
    pub accepted_chunks: Vec<usize>,
    pub partial_accepts: usize,
    pub accept_one: usize,
    pub accept_all_but_one: usize,
    pub intr: usize,
    pub max_burst: usize,
    pub intr_during_drop: usize,
    pub intr_during_flush_op: usize,
    pub largest_offer: usize,
    pub vectored_calls: usize,
    pub livelock: bool,
}

/// State shared between the harness and the sink it handed to the Writer (single thread).
pub struct Shared {
    pub received: Vec<u8>,
    /// model stream of the operations issued so far
    pub expected: Vec<u8>,
    pub trace: WTrace,
    ev: usize,
    burst: usize,
    pub log: SinkLog,
    pub current_op: usize,
    pub in_drop: bool,
    pub in_flush_op: bool,
    /// first breach of the prefix invariant: (op index, description)
    pub breach: Option<(usize, String)>,
    max_calls: usize,
}

pub struct SimSink(pub Rc<RefCell<Shared>>);

impl Write for SimSink {
    fn write(&mut self, buf: &[u8]) -> io::Result<usize> {
        let mut guard = self.0.borrow_mut();
        let s = &mut *guard;
        s.log.calls += 1;
        s.log.largest_offer = s.log.largest_offer.max(buf.len());
        // continuous prefix invariant: what the sink has plus what it is offered now must be a
        // prefix of what the operations issued so far should produce
        // (the comparison covers the first CHECK_AHEAD bytes of the offer here and every byte that is
        // actually accepted below: a one-byte-per-call sink under a 64 KiB flush would otherwise
        // cost a quadratic number of byte comparisons, seconds per flush)
        const CHECK_AHEAD: usize = 512;
        let buf_all = buf;
        let buf = &buf_all[..buf_all.len().min(CHECK_AHEAD)];
        if s.breach.is_none() {
            let at = s.received.len();
            let ok = at + buf.len() <= s.expected.len() && &s.expected[at..at + buf.len()] == buf;
            if !ok {
                let upto = (at + buf.len()).min(s.expected.len());
                let first_bad = (0..buf.len()).find(|i| s.expected.get(at + i) != Some(&buf[*i])).unwrap_or(0);
                let lo = first_bad.saturating_sub(8);
                let hi = (first_bad + 24).min(buf.len());
                s.breach = Some((
                    s.current_op,
                    format!(
                        "sink had {} bytes and was offered {} more, but byte {} of the stream should be {:?} and the offer has {:?} (offer[{}..{}]={:?}, model[{}..]={:?}, model stream is {} bytes so far)",
                        at,
                        buf.len(),
                        at + first_bad,
                        s.expected.get(at + first_bad).map(|b| *b as char),
                        buf.get(first_bad).map(|b| *b as char),
                        lo,
                        hi,
                        escape_bytes(&buf[lo..hi]),
                        at + lo,
                        escape_bytes(&s.expected[(at + lo).min(upto)..(at + hi).min(s.expected.len())]),
                        s.expected.len()
                    ),
                ));
            }
        }
        let buf = buf_all;
        // the part of an accepted piece beyond CHECK_AHEAD
        fn verify_rest(s: &mut Shared, buf: &[u8], n: usize) {
            const CHECK_AHEAD: usize = 512;
            if n <= CHECK_AHEAD || s.breach.is_some() {
                return;
            }
            let at = s.received.len();
            let ok = at + n <= s.expected.len() && s.expected[at + CHECK_AHEAD..at + n] == buf[CHECK_AHEAD..n];
            if !ok {
                let first_bad = (CHECK_AHEAD..n).find(|i| s.expected.get(at + i) != Some(&buf[*i])).unwrap_or(CHECK_AHEAD);
                let lo = first_bad.saturating_sub(8);
                let hi = (first_bad + 24).min(n);
                let upto = (at + n).min(s.expected.len());
                s.breach = Some((
                    s.current_op,
                    format!(
                        "sink had {} bytes and accepted {} more, but byte {} of the stream should be {:?} and the piece has {:?} (piece[{}..{}]={:?}, model[{}..]={:?}, model stream is {} bytes so far)",
                        at,
                        n,
                        at + first_bad,
                        s.expected.get(at + first_bad).map(|b| *b as char),
                        buf.get(first_bad).map(|b| *b as char),
                        lo,
                        hi,
                        escape_bytes(&buf[lo..hi]),
                        at + lo,
                        escape_bytes(&s.expected[(at + lo).min(upto)..(at + hi).min(s.expected.len())]),
                        s.expected.len()
                    ),
                ));
            }
        }
        if buf.is_empty() {
            return Ok(0);
        }
        if std::thread::panicking() {
            // the Writer is being dropped by an unwinding panic: injecting a fault now would
            // turn it into a double panic (process abort); just swallow the bytes
            s.received.extend_from_slice(buf);
            return Ok(buf.len());
        }
        if s.log.calls > s.max_calls {
            // never make the Writer panic from here (a panic during its Drop would abort the
            // process): flag the livelock and swallow everything
            s.log.livelock = true;
            s.received.extend_from_slice(buf);
            return Ok(buf.len());
        }
        let ev = if s.ev < s.trace.events.len() {
            s.ev += 1;
            s.trace.events[s.ev - 1].clone()
        } else {
            WEv::Accept(if s.trace.rest_max == 0 { usize::MAX } else { s.trace.rest_max })
        };
        match ev {
            WEv::Intr => {
                s.burst += 1;
                s.log.max_burst = s.log.max_burst.max(s.burst);
                s.log.intr += 1;
                if s.in_drop {
                    s.log.intr_during_drop += 1;
                }
                if s.in_flush_op {
                    s.log.intr_during_flush_op += 1;
                }
                if s.log.first_calls.len() < 128 {
                    s.log.first_calls.push((buf.len(), usize::MAX));
                }
                Err(io::Error::from(io::ErrorKind::Interrupted))
            }
            WEv::Accept(_) | WEv::AllButOne => {
                s.burst = 0;
                let k = match ev {
                    WEv::Accept(k) => k,
                    _ => buf.len().saturating_sub(1),
                };
                let n = k.max(1).min(buf.len());
                if n < buf.len() {
                    s.log.partial_accepts += 1;
                    if n == 1 {
                        s.log.accept_one += 1;
                    }
                    if n + 1 == buf.len() {
                        s.log.accept_all_but_one += 1;
                    }
                }
                if s.log.first_calls.len() < 128 {
                    s.log.first_calls.push((buf.len(), n));
                }
                if s.log.accepted_chunks.len() < 2048 {
                    s.log.accepted_chunks.push(n);
                }
                verify_rest(s, buf, n);
                s.received.extend_from_slice(&buf[..n]);
                Ok(n)
            }
        }
    }
    /// A sink may implement vectored writes natively (pipes, sockets and files do): the offered
    /// slices count as one contiguous offer and a partial accept may end anywhere, also in the
    /// middle of a later slice.
    fn write_vectored(&mut self, bufs: &[io::IoSlice<'_>]) -> io::Result<usize> {
        let joined: Vec<u8> = bufs.iter().flat_map(|b| b.iter().copied()).collect();
        self.0.borrow_mut().log.vectored_calls += 1;
        self.write(&joined)
    }
    fn flush(&mut self) -> io::Result<()> {
        Ok(())
    }
}

// ---------------------------------------------------------------------------------------------
// execution

#[derive(Clone, Debug, Default)]
pub struct WProbeLog {
    /// (op kind, pending bytes in the Writer when the operation started, rendering length)
    pub starts: Vec<(&'static str, usize, usize)>,
    /// operations during which the sink was called although the script did not ask for a flush
    pub flushed_during_op: usize,
    pub flush_on_empty: usize,
    pub pending_at_drop: usize,
    pub sink_calls_per_op_all: bool,
}

pub struct WExecOut {
    pub received: Vec<u8>,
    pub expected: Vec<u8>,
    pub log: SinkLog,
    pub probes: WProbeLog,
    pub violation: Option<WViolation>,
}

#[derive(Clone, Debug)]
pub struct WViolation {
    /// "prefix" | "flush" | "drop" | "panic" | "liveness" | "roundtrip"
    pub oracle: &'static str,
    pub op_kind: String,
    pub op_index: usize,
    pub detail: String,
}

impl WViolation {
    pub fn class(&self) -> String {
        let d = match self.oracle {
            "panic" => {
                let m: String = self.detail.chars().map(|c| if c.is_ascii_digit() { '#' } else { c }).collect();
                m.chars().take(90).collect()
            }
            _ => String::new(),
        };
        format!("writer/{}/{}/{}", self.oracle, self.op_kind, d)
    }
    pub fn to_json(&self) -> Json {
        Json::obj()
            .with("oracle", Json::s(self.oracle))
            .with("op_kind", Json::s(&self.op_kind))
            .with("op_index", Json::u(self.op_index))
            .with("class", Json::s(&self.class()))
            .with("detail", Json::s(&self.detail))
    }
}

fn diff_detail(what: &str, received: &[u8], expected: &[u8]) -> String {
    let common = received.iter().zip(expected.iter()).take_while(|(a, b)| a == b).count();
    let lo = common.saturating_sub(8);
    format!(
        "{}: sink has {} bytes, model stream has {}; first difference at byte {} (sink[{}..]={:?}, model[{}..]={:?})",
        what,
        received.len(),
        expected.len(),
        common,
        lo,
        escape_bytes(&received[lo..(common + 24).min(received.len())]),
        lo,
        escape_bytes(&expected[lo..(common + 24).min(expected.len())])
    )
}

pub fn exec(script: &[WOp], trace: &WTrace) -> WExecOut {
    let total: usize = script.iter().map(|o| o.rendering().len()).sum();
    let faults = trace.events.iter().filter(|e| matches!(e, WEv::Intr)).count();
    let shared = Rc::new(RefCell::new(Shared {
        received: Vec::with_capacity(total + 16),
        expected: Vec::with_capacity(total + 16),
        trace: trace.clone(),
        ev: 0,
        burst: 0,
        log: SinkLog::default(),
        current_op: 0,
        in_drop: false,
        in_flush_op: false,
        breach: None,
        // every call of a live writer hands over at least one new byte or is a fault (plus slack
        // for an empty offer per operation)
        max_calls: total + faults + 2 * script.len() + 8,
    }));
    let mut probes = WProbeLog::default();
    let mut after_flush: Option<WViolation> = None;

    let outcome = {
        let sh = shared.clone();
        let probes = &mut probes;
        let after_flush = &mut after_flush;
        catch_unwind(AssertUnwindSafe(move || {
            #[allow(unused_variables, unused_mut)]
            let reader = Reader::new(Box::new(std::io::empty()));
            let writer = Writer::new(Box::new(SimSink(sh.clone())));
            rlib_io::make_output_macro!(reader, writer);
            for (i, op) in script.iter().enumerate() {
                let rendering = op.rendering();
                let (pending, calls_before) = {
                    let mut s = sh.borrow_mut();
                    s.current_op = i;
                    s.in_flush_op = matches!(op, WOp::Flush);
                    let pending = s.expected.len() - s.received.len().min(s.expected.len());
                    s.expected.extend_from_slice(&rendering);
                    (pending, s.log.calls)
                };
                probes.starts.push((op.kind(), pending, rendering.len()));
                match op {
                    WOp::Int(v) => write_int(&mut writer, v),
                    WOp::Str(s, false) => {
                        let st = std::str::from_utf8(s).expect("harness: ASCII");
                        writer.write(&st)
                    }
                    WOp::Str(s, true) => writer.write(&String::from_utf8(s.clone()).expect("harness: ASCII")),
                    WOp::Fill { len, salt, string } => {
                        let bytes = fill_bytes(*len, *salt);
                        if *string {
                            writer.write(&String::from_utf8(bytes).expect("harness: ASCII"))
                        } else {
                            let st = std::str::from_utf8(&bytes).expect("harness: ASCII");
                            writer.write(&st)
                        }
                    }
                    WOp::Char(c) => writer.write_char(*c as char),
                    WOp::Vec(t, vals) => write_vec(&mut writer, *t, vals),
                    WOp::Tuple(k, vals) => write_tuple(&mut writer, *k, vals),
                    WOp::Macro(k, vals) => match k {
                        0 => {
                            let (a, b, c) = (i32::build(&vals[0]), String::build(&vals[1]), u64::build(&vals[2]));
                            outln!(a, b, c);
                        }
                        1 => {
                            let a = i64::build(&vals[0]);
                            out!(a);
                        }
                        2 => {
                            outln!();
                        }
                        3 => {
                            let (a, b, c, d) = (String::build(&vals[0]), i128::build(&vals[1]), i8::build(&vals[2]), u8::build(&vals[3]));
                            outln!(a.as_str(), b, c, d);
                        }
                        _ => {
                            let (a, b) = (usize::build(&vals[0]), isize::build(&vals[1]));
                            out!(a, b);
                        }
                    },
                    WOp::Nested(k, groups) => match k {
                        0 => {
                            let v: Vec<Vec<i64>> = groups.iter().map(|g| g.iter().map(i64::build).collect()).collect();
                            writer.write(&v)
                        }
                        1 => {
                            let v: Vec<(i32, String)> = groups.iter().map(|g| (i32::build(&g[0]), String::build(&g[1]))).collect();
                            writer.write(&v)
                        }
                        2 => {
                            let v: (Vec<u8>, i32) = (groups[0].iter().map(u8::build).collect(), i32::build(&groups[1][0]));
                            writer.write(&v)
                        }
                        3 => {
                            let v: Vec<Vec<String>> = groups.iter().map(|g| g.iter().map(String::build).collect()).collect();
                            writer.write(&v)
                        }
                        // user-defined Writable impls that call the fields' own `write` and
                        // `write_char` directly (the way rlib_mint and rlib_tensor do)
                        4 => writer.write(&UserEdge { u: u32::build(&groups[0][0]), v: i64::build(&groups[0][1]) }),
                        5 => {
                            let v: Vec<UserEdge> = groups.iter().map(|g| UserEdge { u: u32::build(&g[0]), v: i64::build(&g[1]) }).collect();
                            writer.write(&v)
                        }
                        _ => writer.write(&UserTagged { name: String::build(&groups[0][0]), x: u64::build(&groups[0][1]) }),
                    },
                    WOp::Flush => {
                        if pending == 0 {
                            probes.flush_on_empty += 1;
                        }
                        writer.flush();
                        let s = sh.borrow();
                        if after_flush.is_none() && s.received != s.expected {
                            *after_flush = Some(WViolation { oracle: "flush", op_kind: "flush".into(), op_index: i, detail: diff_detail("after flush()", &s.received, &s.expected) });
                        }
                    }
                }
                if !matches!(op, WOp::Flush) && sh.borrow().log.calls > calls_before {
                    probes.flushed_during_op += 1;
                }
            }
            {
                let mut s = sh.borrow_mut();
                s.current_op = script.len();
                s.in_flush_op = false;
                s.in_drop = true;
                probes.pending_at_drop = s.expected.len() - s.received.len().min(s.expected.len());
            }
            drop(writer);
        }))
    };

    let s = shared.borrow();
    let kind_of = |i: usize| script.get(i).map(|o| o.kind()).unwrap_or("drop").to_string();
    let mut violation: Option<WViolation> = None;
    if let Some((i, d)) = &s.breach {
        violation = Some(WViolation { oracle: "prefix", op_kind: kind_of(*i), op_index: *i, detail: d.clone() });
    }
    if violation.is_none() {
        violation = after_flush;
    }
    if violation.is_none() {
        if let Err(e) = &outcome {
            violation = Some(WViolation { oracle: "panic", op_kind: kind_of(s.current_op), op_index: s.current_op, detail: panic_message(&**e) });
        }
    }
    if violation.is_none() && s.log.livelock {
        violation = Some(WViolation { oracle: "liveness", op_kind: kind_of(s.current_op), op_index: s.current_op, detail: format!("{} sink calls for a stream of {} bytes", s.log.calls, total) });
    }
    if violation.is_none() && s.received != s.expected {
        violation = Some(WViolation { oracle: "drop", op_kind: "drop".into(), op_index: script.len(), detail: diff_detail("after drop", &s.received, &s.expected) });
    }
    WExecOut { received: s.received.clone(), expected: s.expected.clone(), log: s.log.clone(), probes, violation }
}

// ---------------------------------------------------------------------------------------------
// round trip

/// The reader script that reads back what a round-trip-able writer script wrote, with the
/// canonical results it must return.  None if the script is not round-trip-able.
pub fn roundtrip_script(script: &[WOp]) -> Option<(Vec<ROp>, Vec<String>)> {
    let mut ops = Vec::new();
    let mut expect = Vec::new();
    let is_ws = |b: u8| b.is_ascii_whitespace();
    let token_ok = |v: &Val| match v {
        Val::Str(s) => !s.is_empty() && !s.iter().any(|b| is_ws(*b)),
        Val::Char(c) => !is_ws(*c),
        Val::Int(_) => true,
    };
    let canon_list = |vals: &[Val], open: char, close: char| format!("{}{}{}", open, vals.iter().map(|v| v.canon()).collect::<Vec<_>>().join(","), close);
    let mut glued = false; // last thing written was a token byte
    for op in script {
        match op {
            WOp::Flush => {}
            WOp::Char(c) if is_ws(*c) => glued = false,
            WOp::Macro(2, _) => glued = false,
            _ if glued => return None,
            WOp::Char(c) => {
                ops.push(ROp::Char);
                expect.push(Val::Char(*c).canon());
                glued = true;
            }
            WOp::Int(v) => {
                if let Val::Int(iv) = v {
                    ops.push(ROp::Int(iv.ty));
                    expect.push(v.canon());
                    glued = true;
                }
            }
            WOp::Str(s, _) => {
                let v = Val::Str(s.clone());
                if !token_ok(&v) {
                    return None;
                }
                ops.push(ROp::Str);
                expect.push(v.canon());
                glued = true;
            }
            WOp::Fill { len, salt, .. } => {
                if *len == 0 {
                    return None;
                }
                ops.push(ROp::Str);
                expect.push(Val::Str(fill_bytes(*len, *salt)).canon());
                glued = true;
            }
            WOp::Vec(t, vals) => {
                if !vals.iter().all(token_ok) {
                    return None;
                }
                ops.push(ROp::Vec(*t, vals.len()));
                expect.push(canon_list(vals, '[', ']'));
                glued = !vals.is_empty();
            }
            WOp::Tuple(k, vals) => {
                if !vals.iter().all(token_ok) {
                    return None;
                }
                ops.push(ROp::Tuple(*k));
                expect.push(canon_list(vals, '(', ')'));
                glued = true;
            }
            WOp::Nested(..) => return None,
            WOp::Macro(k, vals) => {
                if !vals.iter().all(token_ok) {
                    return None;
                }
                for v in vals {
                    ops.push(match v {
                        Val::Int(iv) => ROp::Int(iv.ty),
                        Val::Str(_) => ROp::Str,
                        Val::Char(_) => ROp::Char,
                    });
                    expect.push(v.canon());
                }
                glued = !matches!(k, 0 | 3); // outln! ends the line
            }
        }
    }
    Some((ops, expect))
}

pub fn roundtrip(text: &[u8], ops: &[ROp], expect: &[String], delivery: &Trace) -> Option<WViolation> {
    let out = rsim::exec(text, ops, delivery);
    if let Some(i) = (0..expect.len()).find(|&i| out.results.get(i) != Some(&expect[i])) {
        return Some(WViolation {
            oracle: "roundtrip",
            op_kind: ops[i].kind().to_string(),
            op_index: i,
            detail: format!(
                "value {} written as {} was read back as {}{}",
                i,
                expect[i],
                out.results.get(i).map(|s| s.as_str()).unwrap_or("<nothing>"),
                out.panicked.as_ref().map(|m| format!(" (reader panicked: {})", m)).unwrap_or_default()
            ),
        });
    }
    None
}

// ---------------------------------------------------------------------------------------------
// record, check, minimise

#[derive(Clone, Debug)]
pub struct WRecord {
    pub script: Vec<WOp>,
    pub trace: WTrace,
    /// delivery trace for reading the text back (round trip), if wanted
    pub readback: Option<Trace>,
}

impl WRecord {
    pub fn to_json(&self) -> Json {
        Json::obj()
            .with("engine", Json::s("iosim-writer"))
            .with("property", Json::s("C09"))
            .with("script", Json::Arr(self.script.iter().map(|o| o.to_json()).collect()))
            .with("sink_trace", self.trace.to_json())
            .with("readback_trace", self.readback.as_ref().map(|t| t.to_json()).unwrap_or(Json::Null))
    }
    pub fn from_json(j: &Json) -> Option<WRecord> {
        Some(WRecord {
            script: j.arr_of("script")?.iter().map(WOp::from_json).collect::<Option<Vec<_>>>()?,
            trace: WTrace::from_json(j.get("sink_trace")?)?,
            readback: match j.get("readback_trace") {
                Some(Json::Null) | None => None,
                Some(t) => Some(Trace::from_json(t)?),
            },
        })
    }
}

pub struct WCheckOut {
    pub violation: Option<WViolation>,
    pub out: WExecOut,
    pub roundtrip_values: usize,
}

pub fn check(rec: &WRecord) -> WCheckOut {
    let mut out = exec(&rec.script, &rec.trace);
    let mut violation = out.violation.take();
    let mut rt = 0;
    if violation.is_none() {
        if let (Some(delivery), Some((ops, expect))) = (&rec.readback, roundtrip_script(&rec.script)) {
            rt = expect.len();
            violation = roundtrip(&out.received, &ops, &expect, delivery);
            if violation.is_none() {
                // pipe mode: the Reader gets the text in exactly the packets the sink accepted
                // (the Writer's flush / partial-accept boundaries), as if both ends of a pipe ran
                let pipe = Trace { events: out.log.accepted_chunks.iter().map(|k| rsim::Ev::Deliver { k: *k, scribble: None }).collect(), rest_one: false, eof_scribble: None };
                violation = roundtrip(&out.received, &ops, &expect, &pipe).map(|mut v| {
                    v.detail = format!("{} [reader fed with the sink's own packetisation]", v.detail);
                    v
                });
                rt += expect.len();
            }
        }
    }
    WCheckOut { violation, out, roundtrip_values: rt }
}

pub fn minimise(rec: &WRecord, class: &str, budget: usize) -> (WRecord, usize) {
    let mut best = rec.clone();
    let mut evals = 0usize;
    // wall-clock cap per violation class: minimisation is a convenience, the verdict does not
    // depend on it (long inputs in the debug profile cost a tenth of a second per candidate)
    let deadline = std::time::Instant::now() + std::time::Duration::from_secs(25);
    let still = |cand: &WRecord, evals: &mut usize| -> bool {
        if *evals >= budget || std::time::Instant::now() > deadline {
            return false;
        }
        *evals += 1;
        check(cand).violation.map(|v| v.class() == class).unwrap_or(false)
    };
    loop {
        let before = best.to_json().to_string().len();
        // truncate after the violating operation
        if let Some(v) = check(&best).violation {
            if v.op_index + 1 < best.script.len() {
                let mut cand = best.clone();
                cand.script.truncate(v.op_index + 1);
                if still(&cand, &mut evals) {
                    best = cand;
                }
            }
        }
        // drop operations
        let mut i = 0;
        while i < best.script.len() {
            let mut cand = best.clone();
            cand.script.remove(i);
            if still(&cand, &mut evals) {
                best = cand;
            } else {
                i += 1;
            }
        }
        // simplify operations
        for i in 0..best.script.len() {
            let simpler: Vec<WOp> = match &best.script[i] {
                WOp::Vec(t, vals) if !vals.is_empty() => (0..vals.len())
                    .map(|d| {
                        let mut v = vals.clone();
                        v.remove(d);
                        WOp::Vec(*t, v)
                    })
                    .collect(),
                WOp::Str(s, st) if s.len() > 1 => vec![WOp::Str(s[..s.len() / 2].to_vec(), *st), WOp::Str(s[..s.len() - 1].to_vec(), *st)],
                WOp::Str(s, true) => vec![WOp::Str(s.clone(), false)],
                WOp::Tuple(_, vals) | WOp::Macro(_, vals) if !vals.is_empty() => vec![WOp::Int(vals[0].clone()).clone()].into_iter().filter(|o| matches!(o, WOp::Int(Val::Int(_)))).collect(),
                _ => vec![],
            };
            for c in simpler {
                let mut cand = best.clone();
                cand.script[i] = c;
                if still(&cand, &mut evals) {
                    best = cand;
                    break;
                }
            }
            // fill lengths: halve, then decrement
            loop {
                let (len, salt, string) = match best.script.get(i) {
                    Some(WOp::Fill { len, salt, string }) => (*len, *salt, *string),
                    _ => break,
                };
                let mut progressed = false;
                for nl in [len / 2, len.saturating_sub(1024), len.saturating_sub(64), len.saturating_sub(1)] {
                    if nl < len {
                        let mut cand = best.clone();
                        cand.script[i] = WOp::Fill { len: nl, salt, string };
                        if still(&cand, &mut evals) {
                            best = cand;
                            progressed = true;
                            break;
                        }
                    }
                }
                if !progressed {
                    break;
                }
            }
        }
        // simplify the sink trace
        if best.trace.rest_max != 0 {
            let mut cand = best.clone();
            cand.trace.rest_max = 0;
            if still(&cand, &mut evals) {
                best = cand;
            }
        }
        while !best.trace.events.is_empty() {
            let mut cand = best.clone();
            cand.trace.events.pop();
            if still(&cand, &mut evals) {
                best = cand;
            } else {
                break;
            }
        }
        let mut i = 0;
        while i < best.trace.events.len() {
            let mut cand = best.clone();
            cand.trace.events.remove(i);
            if still(&cand, &mut evals) {
                best = cand;
            } else {
                i += 1;
            }
        }
        if best.readback.is_some() {
            let mut cand = best.clone();
            cand.readback = Some(Trace::whole());
            if still(&cand, &mut evals) {
                best = cand;
            }
            let mut cand = best.clone();
            cand.readback = None;
            if still(&cand, &mut evals) {
                best = cand;
            }
        }
        let after = best.to_json().to_string().len();
        if after >= before || evals >= budget || std::time::Instant::now() > deadline {
            break;
        }
    }
    (best, evals)
}
