//! Reference model of the Reader: a parser over the complete byte slice plus a cursor.  No
//! buffer, no end-of-input flag, no notion of delivery at all — so whatever it says is by
//! construction a function of the input bytes alone.
//!
//! The model is deliberately *nondeterministic* in the two places where the documented
//! behaviour leaves room and a reasonable implementation could differ without violating the
//! property (see DESIGN.md 3.1): it returns every acceptable (result, next cursor) pair and
//! the harness tracks the set of cursors consistent with what the real Reader returned.
//!  (a) `is_eof` may or may not consume the whitespace it looks past;
//!  (b) an unterminated last line that ends in a lone CR may keep or drop that CR.

use crate::types::*;
use simcore::{escape_bytes, Json};

#[derive(Clone, PartialEq, Eq, Debug)]
pub enum ROp {
    Int(IntTy),
    Str,
    Char,
    Tuple(usize),
    Vec(ElemTy, usize),
    Line,
    Lines,
    IsEof,
}

impl ROp {
    pub fn kind(&self) -> &'static str {
        match self {
            ROp::Int(_) => "int",
            ROp::Str => "str",
            ROp::Char => "char",
            ROp::Tuple(_) => "tuple",
            ROp::Vec(..) => "vec",
            ROp::Line => "line",
            ROp::Lines => "lines",
            ROp::IsEof => "eof",
        }
    }
    pub fn encode(&self) -> String {
        match self {
            ROp::Int(t) => format!("int:{}", t.name()),
            ROp::Str => "str".into(),
            ROp::Char => "char".into(),
            ROp::Tuple(k) => format!("tuple:{}", k),
            ROp::Vec(t, n) => format!("vec:{}:{}", t.name(), n),
            ROp::Line => "line".into(),
            ROp::Lines => "lines".into(),
            ROp::IsEof => "eof".into(),
        }
    }
    pub fn decode(s: &str) -> Option<ROp> {
        let parts: Vec<&str> = s.split(':').collect();
        match parts.as_slice() {
            ["int", t] => IntTy::from_name(t).map(ROp::Int),
            ["str"] => Some(ROp::Str),
            ["char"] => Some(ROp::Char),
            ["tuple", k] => k.parse().ok().filter(|k| *k < tuple_count()).map(ROp::Tuple),
            ["vec", t, n] => Some(ROp::Vec(ElemTy::from_name(t)?, n.parse().ok()?)),
            ["line"] => Some(ROp::Line),
            ["lines"] => Some(ROp::Lines),
            ["eof"] => Some(ROp::IsEof),
            _ => None,
        }
    }
    pub fn to_json(&self) -> Json {
        Json::Str(self.encode())
    }
}

#[inline]
pub fn is_ws(b: u8) -> bool {
    b.is_ascii_whitespace()
}

pub fn skip_ws(data: &[u8], mut pos: usize) -> usize {
    while pos < data.len() && is_ws(data[pos]) {
        pos += 1;
    }
    pos
}

fn token_end(data: &[u8], mut pos: usize) -> usize {
    while pos < data.len() && !is_ws(data[pos]) {
        pos += 1;
    }
    pos
}

/// Parses the token `t` as a value of `ty`; None if it is not a valid decimal of that type.
pub fn parse_int(t: &[u8], ty: IntTy) -> Option<IntVal> {
    let (neg, digits) = match t.first() {
        Some(b'-') => (true, &t[1..]),
        _ => (false, t),
    };
    if digits.is_empty() || !digits.iter().all(|b| b.is_ascii_digit()) {
        return None;
    }
    if neg && !ty.signed() {
        return None;
    }
    let mut mag: u128 = 0;
    for &d in digits {
        mag = mag.checked_mul(10)?.checked_add((d - b'0') as u128)?;
    }
    if IntVal::fits(ty, neg, mag) {
        Some(IntVal { ty, neg, mag })
    } else {
        None
    }
}

/// One elementary token read.  Deterministic: Some((result, next cursor)) or None if unlawful.
fn elem(data: &[u8], pos: usize, ty: ElemTy) -> Option<(String, usize)> {
    let s = skip_ws(data, pos);
    if s >= data.len() {
        return None;
    }
    match ty {
        ElemTy::Char => Some((format!("char:{}", escape_bytes(&data[s..s + 1])), s + 1)),
        ElemTy::Str => {
            let e = token_end(data, s);
            Some((format!("str:{}", escape_bytes(&data[s..e])), e))
        }
        ElemTy::Int(t) => {
            let e = token_end(data, s);
            parse_int(&data[s..e], t).map(|v| (v.canon(), e))
        }
    }
}

fn line_candidates(data: &[u8], pos: usize) -> Vec<(Option<Vec<u8>>, usize)> {
    if pos >= data.len() {
        return vec![(None, pos)];
    }
    match data[pos..].iter().position(|b| *b == b'\n') {
        Some(off) => {
            let q = pos + off;
            let mut content = &data[pos..q];
            if content.last() == Some(&b'\r') {
                content = &content[..content.len() - 1];
            }
            vec![(Some(content.to_vec()), q + 1)]
        }
        None => {
            let content = &data[pos..];
            let mut v = vec![(Some(content.to_vec()), data.len())];
            if content.last() == Some(&b'\r') {
                // ambiguity (b): unterminated last line ending in a lone CR
                v.push((Some(content[..content.len() - 1].to_vec()), data.len()));
            }
            v
        }
    }
}

fn fmt_line(l: &Option<Vec<u8>>) -> String {
    match l {
        Some(b) => format!("Some({})", escape_bytes(b)),
        None => "None".into(),
    }
}

/// All acceptable outcomes of `op` started at cursor `pos`.  Empty = the operation is not
/// lawful here (no such token remains), in which case the property says nothing.
pub fn step(data: &[u8], pos: usize, op: &ROp) -> Vec<(String, usize)> {
    match op {
        ROp::Int(t) => elem(data, pos, ElemTy::Int(*t)).into_iter().collect(),
        ROp::Str => elem(data, pos, ElemTy::Str).into_iter().collect(),
        ROp::Char => elem(data, pos, ElemTy::Char).into_iter().collect(),
        ROp::Tuple(k) => {
            let mut p = pos;
            let mut parts = Vec::new();
            for ty in tuple_types(*k) {
                match elem(data, p, *ty) {
                    Some((r, np)) => {
                        parts.push(r);
                        p = np;
                    }
                    None => return vec![],
                }
            }
            vec![(format!("({})", parts.join(",")), p)]
        }
        ROp::Vec(ty, n) => {
            let mut p = pos;
            let mut parts = Vec::new();
            for _ in 0..*n {
                match elem(data, p, *ty) {
                    Some((r, np)) => {
                        parts.push(r);
                        p = np;
                    }
                    None => return vec![],
                }
            }
            vec![(format!("[{}]", parts.join(",")), p)]
        }
        ROp::Line => line_candidates(data, pos).into_iter().map(|(l, p)| (format!("line:{}", fmt_line(&l)), p)).collect(),
        ROp::Lines => {
            // only the last (unterminated) line can be ambiguous
            let mut prefix: Vec<String> = Vec::new();
            let mut p = pos;
            loop {
                let c = line_candidates(data, p);
                if c.len() == 1 {
                    match &c[0].0 {
                        None => return vec![(format!("lines:[{}]", prefix.join(",")), c[0].1)],
                        Some(_) => {
                            prefix.push(fmt_line(&c[0].0));
                            p = c[0].1;
                        }
                    }
                } else {
                    // two candidates, both end at data.len(); the following read returns None
                    return c
                        .into_iter()
                        .map(|(l, np)| {
                            let mut all = prefix.clone();
                            all.push(fmt_line(&l));
                            (format!("lines:[{}]", all.join(",")), np)
                        })
                        .collect();
                }
            }
        }
        ROp::IsEof => {
            let s = skip_ws(data, pos);
            let r = format!("eof:{}", s >= data.len());
            if s != pos {
                vec![(r.clone(), s), (r, pos)] // ambiguity (a)
            } else {
                vec![(r, s)]
            }
        }
    }
}

/// The set of cursors the model considers possible.
#[derive(Clone, Debug)]
pub struct ModelState {
    pub cursors: Vec<usize>,
}

impl ModelState {
    pub fn start() -> Self {
        ModelState { cursors: vec![0] }
    }

    /// Advances by `op` given the result the real Reader produced.  Err carries the acceptable
    /// results when none matches.
    pub fn advance(&mut self, data: &[u8], op: &ROp, got: &str) -> Result<(), Vec<String>> {
        let mut next: Vec<usize> = Vec::new();
        let mut expected: Vec<String> = Vec::new();
        for &c in &self.cursors {
            for (r, p) in step(data, c, op) {
                if r == got {
                    if !next.contains(&p) {
                        next.push(p);
                    }
                } else if !expected.contains(&r) {
                    expected.push(r);
                }
            }
        }
        if next.is_empty() {
            return Err(expected);
        }
        next.sort_unstable();
        self.cursors = next;
        Ok(())
    }

    /// Advances without a real result: follows every acceptable outcome.  False if `op` is
    /// unlawful from some possible cursor.
    pub fn advance_blind(&mut self, data: &[u8], op: &ROp) -> bool {
        let mut next: Vec<usize> = Vec::new();
        for &c in &self.cursors {
            let cands = step(data, c, op);
            if cands.is_empty() {
                return false;
            }
            for (_, p) in cands {
                if !next.contains(&p) {
                    next.push(p);
                }
            }
        }
        next.sort_unstable();
        self.cursors = next;
        true
    }
}

/// A script is lawful on an input iff every operation has an outcome from every cursor the
/// model considers possible at that point.
pub fn lawful(data: &[u8], script: &[ROp]) -> bool {
    let mut st = ModelState::start();
    script.iter().all(|op| st.advance_blind(data, op))
}

#[cfg(test)]
mod tests {
    use super::*;

    #[test]
    fn basics() {
        let d = b"12 -7\r\nabc\r";
        let mut st = ModelState::start();
        assert!(st.advance(d, &ROp::Int(IntTy::I32), "i32:12").is_ok());
        assert!(st.advance(d, &ROp::Int(IntTy::I8), "i8:-7").is_ok());
        assert!(st.advance(d, &ROp::Line, "line:Some()").is_ok());
        let mut a = st.clone();
        assert!(a.advance(d, &ROp::Line, "line:Some(abc\\r)").is_ok());
        let mut b = st.clone();
        assert!(b.advance(d, &ROp::Line, "line:Some(abc)").is_ok());
        assert!(st.advance(d, &ROp::Line, "line:Some(ab)").is_err());
        assert!(a.advance(d, &ROp::Line, "line:None").is_ok());
        assert!(a.advance(d, &ROp::IsEof, "eof:true").is_ok());
        assert!(!lawful(d, &[ROp::Int(IntTy::U8), ROp::Int(IntTy::U8)]));
        assert!(lawful(b"  5", &[ROp::IsEof, ROp::Line]));
        assert!(parse_int(b"-128", IntTy::I8).is_some());
        assert!(parse_int(b"128", IntTy::I8).is_none());
        assert!(parse_int(b"-0", IntTy::I8).is_some());
        assert!(parse_int(b"-0", IntTy::U8).is_none());
        assert!(parse_int(b"340282366920938463463374607431768211455", IntTy::U128).is_some());
        assert!(parse_int(b"340282366920938463463374607431768211456", IntTy::U128).is_none());
    }
}
