//! Writer runner: seeded search over (script, sink acceptance trace), the explicit
//! fill-level sweep, evidence accounting, violation collection + minimisation, replay.

use crate::rgen;
use crate::types::*;
use crate::wsim::*;
use rlib_io::Writer;
use simcore::par::{par_for, workers_from_env};
use simcore::{run_seed, Counters, Digest, Json, Rng};
use std::collections::{BTreeMap, HashSet};

const SALT: u64 = 0xC09;

pub const FAULT_KINDS: &[&str] = &[
    "partial_accept",
    "accept_one_byte",
    "accept_all_but_one",
    "interrupted",
    "interrupted_burst",
    "interrupted_during_flush_call",
    "interrupted_during_drop",
];

pub const WPROBES: &[&str] = &[
    "int_starts_within_45_of_boundary",
    "str_starts_within_45_of_boundary",
    "char_starts_within_45_of_boundary",
    "vec_starts_within_45_of_boundary",
    "tuple_starts_within_45_of_boundary",
    "macro_starts_within_45_of_boundary",
    "nested_container_starts_within_45_of_boundary",
    "nested_container_written",
    "piece_ends_exactly_at_boundary",
    "write_would_overflow_buffer",
    "sink_called_during_write_op",
    "string_exactly_buffer_size",
    "string_crosses_one_buffer",
    "string_crosses_two_buffers",
    "empty_string_or_vec",
    "flush_on_empty_buffer",
    "drop_with_empty_buffer",
    "drop_with_pending_bytes",
    "extreme_value_written",
    "longest_rendering_i128_or_u128",
    "roundtrip_executed",
    "macro_path_used",
    "sink_write_vectored_called",
    "all_12_int_types_at_boundary",
];

fn wprobe(name: &str) -> usize {
    WPROBES.iter().position(|n| *n == name).unwrap_or_else(|| panic!("harness: unknown probe {}", name))
}

/// The Writer's buffer size, measured black-box (the library is built as shipped, without its
/// `verif` feature): the largest piece the sink is offered in one call while a 1 MiB string is
/// written.  Only used for aiming fill levels at the boundary; no oracle depends on it.  Falls
/// back to the Reader's size when the answer is implausible (a design that does not chunk).
pub fn buf_size() -> usize {
    static SIZE: std::sync::OnceLock<usize> = std::sync::OnceLock::new();
    *SIZE.get_or_init(|| {
        struct Probe(std::rc::Rc<std::cell::Cell<usize>>);
        impl std::io::Write for Probe {
            fn write(&mut self, buf: &[u8]) -> std::io::Result<usize> {
                self.0.set(self.0.get().max(buf.len()));
                Ok(buf.len())
            }
            fn flush(&mut self) -> std::io::Result<()> {
                Ok(())
            }
        }
        let seen = std::rc::Rc::new(std::cell::Cell::new(0usize));
        let probe = Probe(seen.clone());
        let ok = std::panic::catch_unwind(std::panic::AssertUnwindSafe(move || {
            let mut w = Writer::new(Box::new(probe));
            let big = "x".repeat(1 << 20);
            w.write(&big.as_str());
            w.flush();
        }))
        .is_ok();
        let n = seen.get();
        if ok && (64..(1 << 20)).contains(&n) {
            n
        } else {
            crate::rrun::buf_size()
        }
    })
}

// ---------------------------------------------------------------------------------------------
// generation

fn gen_str(rng: &mut Rng, ws_free: bool, nonempty: bool) -> Vec<u8> {
    const A: &[u8] = b"abcXYZ0123456789-_.,;:!?#()[]{}<>=+*/'\"\\";
    let n = match rng.below(8) {
        0 if !nonempty => 0,
        1 => 1,
        2 => rng.urange(30, 60),
        _ => rng.urange(1, 12),
    };
    (0..n)
        .map(|_| {
            if !ws_free && rng.chance(1, 8) {
                *rng.pick(b" \t\n")
            } else {
                *rng.pick(A)
            }
        })
        .collect()
}

fn gen_val(rng: &mut Rng, ty: ElemTy, ws_free: bool) -> Val {
    match ty {
        ElemTy::Int(t) => Val::Int(normalise(IntVal::gen(rng, t))),
        ElemTy::Str => Val::Str(gen_str(rng, ws_free, ws_free)),
        ElemTy::Char => Val::Char(*rng.pick(b"abcxyz0189-+.#")),
    }
}

/// "-0" is an input spelling, not a value: writer-side values are normalised.
fn normalise(mut v: IntVal) -> IntVal {
    if v.mag == 0 {
        v.neg = false;
    }
    v
}

fn long_int(rng: &mut Rng) -> Val {
    // longest renderings: the last 45 bytes before the boundary are about these
    let ty = *rng.pick(&[IntTy::I128, IntTy::U128, IntTy::I64, IntTy::U64, IntTy::Isize, IntTy::Usize]);
    let neg = ty.signed() && rng.chance(1, 2);
    let lim = if neg { ty.min_mag() } else { ty.max_mag() };
    let mag = match rng.below(3) {
        0 => lim,
        1 => lim - rng.below(1000) as u128,
        _ => lim / 10u128.pow(rng.below(4) as u32),
    };
    Val::Int(IntVal { ty, neg, mag })
}

fn gen_nested(rng: &mut Rng) -> WOp {
    let k = rng.usize_below(7);
    let int = |rng: &mut Rng, t: IntTy| gen_val(rng, ElemTy::Int(t), true);
    let groups: Vec<Vec<Val>> = match k {
        4 => vec![vec![int(rng, IntTy::U32), int(rng, IntTy::I64)]],
        5 => (0..rng.urange(0, 4)).map(|_| vec![int(rng, IntTy::U32), int(rng, IntTy::I64)]).collect(),
        6 => vec![vec![gen_val(rng, ElemTy::Str, false), int(rng, IntTy::U64)]],
        0 => (0..rng.urange(0, 4)).map(|_| (0..rng.urange(0, 4)).map(|_| int(rng, IntTy::I64)).collect()).collect(),
        1 => (0..rng.urange(0, 4)).map(|_| vec![int(rng, IntTy::I32), gen_val(rng, ElemTy::Str, false)]).collect(),
        2 => vec![(0..rng.urange(0, 5)).map(|_| int(rng, IntTy::U8)).collect(), vec![int(rng, IntTy::I32)]],
        _ => (0..rng.urange(0, 3)).map(|_| (0..rng.urange(0, 3)).map(|_| gen_val(rng, ElemTy::Str, false)).collect()).collect(),
    };
    WOp::Nested(k, groups)
}

fn gen_value_op(rng: &mut Rng, ws_free: bool, allow_macro: bool) -> WOp {
    if !ws_free && rng.chance(1, 10) {
        return gen_nested(rng);
    }
    match rng.below(if allow_macro { 14 } else { 12 }) {
        0..=3 => {
            let ty = *rng.pick(&ALL_INT);
            WOp::Int(gen_val(rng, ElemTy::Int(ty), ws_free))
        }
        4 | 5 => WOp::Int(long_int(rng)),
        6 | 7 => WOp::Str(gen_str(rng, ws_free, ws_free), rng.chance(1, 2)),
        8 => WOp::Char(if ws_free { *rng.pick(b"abcxyz0189-+.#") } else { *rng.pick(b"abc019-+.# \n\t") }),
        9 | 10 => {
            let ty = if rng.chance(1, 5) { ElemTy::Str } else { ElemTy::Int(*rng.pick(&ALL_INT)) };
            let n = match rng.below(6) {
                0 => 0,
                1 => 1,
                _ => rng.urange(2, 8),
            };
            WOp::Vec(ty, (0..n).map(|_| gen_val(rng, ty, ws_free)).collect())
        }
        11 => {
            let k = rng.usize_below(TUPLES.len());
            WOp::Tuple(k, TUPLES[k].iter().map(|t| gen_val(rng, *t, true)).collect())
        }
        _ => {
            let k = rng.usize_below(MACRO_KINDS.len());
            WOp::Macro(k, MACRO_KINDS[k].iter().map(|t| gen_val(rng, *t, true)).collect())
        }
    }
}

#[derive(Clone, Copy, PartialEq, Eq, Debug)]
enum Mode {
    Boundary,
    Small,
    BigStrings,
    RoundTrip,
}

/// Generator-side estimate of the buffer fill level, used only to *aim* writes at the
/// boundary; what actually happened is measured from the sink (see probes).
struct FillEst {
    buf: usize,
    est: usize,
    debug_profile: bool,
}
impl FillEst {
    fn add(&mut self, len: usize) {
        if self.debug_profile {
            self.est = 0;
            return;
        }
        let mut len = len;
        while len > self.buf {
            len -= self.buf;
            self.est = 0;
        }
        if self.est + len > self.buf {
            self.est = len;
        } else {
            self.est += len;
        }
    }
}

fn gen_script(rng: &mut Rng, buf: usize, mode: Mode) -> Vec<WOp> {
    let mut script = Vec::new();
    let mut fe = FillEst { buf, est: 0, debug_profile: cfg!(debug_assertions) };
    let push = |script: &mut Vec<WOp>, fe: &mut FillEst, op: WOp| {
        match &op {
            WOp::Flush => fe.est = 0,
            // composite operations reach the buffer piece by piece; the estimate treats them as
            // one piece, which is good enough for aiming
            o => fe.add(o.rendering().len()),
        }
        script.push(op);
    };
    let aim = |rng: &mut Rng, script: &mut Vec<WOp>, fe: &mut FillEst| {
        // bring the fill level to BUF - d, d in 0..=45 mostly
        let d = if rng.chance(5, 6) { rng.urange(0, 45) } else { rng.urange(46, 200) };
        let target = buf - d.min(buf);
        if fe.est > target {
            push(script, fe, WOp::Flush);
        }
        let len = target - fe.est;
        if len > 0 {
            push(script, fe, WOp::Fill { len, salt: rng.below(256) as u8, string: rng.chance(1, 4) });
        }
    };
    match mode {
        Mode::Boundary => {
            aim(rng, &mut script, &mut fe);
            let n = rng.urange(1, 30);
            for _ in 0..n {
                match rng.below(20) {
                    0 => push(&mut script, &mut fe, WOp::Flush),
                    1 | 2 => aim(rng, &mut script, &mut fe),
                    _ => {
                        let op = gen_value_op(rng, false, true);
                        push(&mut script, &mut fe, op)
                    }
                }
            }
        }
        Mode::Small => {
            let n = rng.urange(1, 30);
            for _ in 0..n {
                if rng.chance(1, 10) {
                    push(&mut script, &mut fe, WOp::Flush);
                } else {
                    let op = gen_value_op(rng, false, true);
                    push(&mut script, &mut fe, op);
                }
            }
        }
        Mode::BigStrings => {
            let n = rng.urange(1, 5);
            for _ in 0..n {
                if rng.chance(1, 2) {
                    let op = gen_value_op(rng, false, true);
                    push(&mut script, &mut fe, op);
                }
                let base = *rng.pick(&[buf, buf, 2 * buf, 3 * buf, buf / 2]);
                let len = match rng.below(6) {
                    0 => base,
                    1 => base - 1,
                    2 => base + 1,
                    3 => base + rng.urange(2, 100),
                    4 => base - rng.urange(2, 100).min(base),
                    _ => rng.urange(0, 3 * buf),
                };
                push(&mut script, &mut fe, WOp::Fill { len, salt: rng.below(256) as u8, string: rng.chance(1, 3) });
                if rng.chance(1, 4) {
                    push(&mut script, &mut fe, WOp::Flush);
                }
            }
        }
        Mode::RoundTrip => {
            if rng.chance(1, 2) {
                aim(rng, &mut script, &mut fe);
                push(&mut script, &mut fe, WOp::Char(b' '));
            }
            let n = rng.urange(1, 25);
            for _ in 0..n {
                let op = gen_value_op(rng, true, true);
                let ends_line = matches!(op, WOp::Macro(0, _) | WOp::Macro(2, _) | WOp::Macro(3, _));
                let empty_vec = matches!(&op, WOp::Vec(_, v) if v.is_empty());
                push(&mut script, &mut fe, op);
                if !ends_line || rng.chance(1, 3) || empty_vec {
                    push(&mut script, &mut fe, WOp::Char(*rng.pick(b"  \n\t")));
                }
                if rng.chance(1, 12) {
                    push(&mut script, &mut fe, WOp::Flush);
                }
                if rng.chance(1, 15) {
                    aim(rng, &mut script, &mut fe);
                    push(&mut script, &mut fe, WOp::Char(b'\n'));
                }
            }
        }
    }
    // crash-point dimension: end (= drop) early at a seeded position
    if rng.chance(1, 4) && script.len() > 1 {
        let keep = rng.urange(1, script.len() - 1);
        script.truncate(keep);
    }
    script
}

fn gen_wtrace(rng: &mut Rng, faults: bool) -> WTrace {
    let style = rng.below(6);
    let n = match style {
        0 => 0,
        _ => rng.urange(1, 48),
    };
    let p_intr = if faults { *rng.pick(&[0u64, 1, 2, 6]) } else { 0 };
    let mut events = Vec::new();
    while events.len() < n {
        if p_intr > 0 && rng.chance(p_intr, 12) {
            let burst = match rng.below(60) {
                0..=11 => rng.urange(2, 5),
                12 => rng.urange(6, 40),
                13 if rng.chance(1, 3) => rng.urange(41, 300),
                14 if rng.chance(1, 24) => *rng.pick(&[1001usize, 1025, 1100, 4097, 10_001, 65_537, 70_000]),
                _ => 1,
            };
            for _ in 0..burst {
                events.push(WEv::Intr);
            }
        }
        events.push(match rng.below(8) {
            0 | 1 => WEv::Accept(1),
            2 => WEv::Accept(rng.urange(2, 7)),
            3 => WEv::AllButOne,
            4 => WEv::Accept(rng.urange(8, 5000)),
            _ => WEv::Accept(usize::MAX),
        });
    }
    WTrace { events, rest_max: [0, 60000, 4096, 7, 1][rng.weighted(&[54, 12, 22, 8, 4])] }
}

fn build_run(master: u64, idx: u64, buf: usize) -> WRecord {
    let mut rng = Rng::new(run_seed(master ^ SALT, idx));
    let faults = rng.chance(3, 4);
    let mode = match rng.below(10) {
        0..=3 => Mode::Boundary,
        4 | 5 => Mode::Small,
        6 => Mode::BigStrings,
        _ => Mode::RoundTrip,
    };
    let script = gen_script(&mut rng, buf, mode);
    let trace = gen_wtrace(&mut rng, faults);
    let readback = if mode == Mode::RoundTrip {
        // delivery trace for reading back: built on the model stream (what a correct writer delivers)
        let text: Vec<u8> = script.iter().flat_map(|o| o.rendering()).collect();
        let cfg = rgen::gen_trace_cfg(&mut rng, false);
        Some(rgen::gen_trace(&mut rng, &text, crate::rrun::buf_size(), &cfg))
    } else {
        None
    };
    WRecord { script, trace, readback }
}

// ---------------------------------------------------------------------------------------------
// accounting

struct Acc {
    runs: u64,
    sweep_runs: u64,
    sink_calls: u64,
    ops: u64,
    bytes: u64,
    roundtrip_values: u64,
    faults: Counters,
    probes: Counters,
    int_types_at_boundary: [u64; 12],
    digests: HashSet<u64>,
    violations: BTreeMap<String, (u64, WRecord, WViolation)>,
    violating_runs: u64,
    samples: Vec<Json>,
}

impl Acc {
    fn new() -> Self {
        Acc {
            runs: 0,
            sweep_runs: 0,
            sink_calls: 0,
            ops: 0,
            bytes: 0,
            roundtrip_values: 0,
            faults: Counters::with_names(FAULT_KINDS),
            probes: Counters::with_names(WPROBES),
            int_types_at_boundary: [0; 12],
            digests: HashSet::new(),
            violations: BTreeMap::new(),
            violating_runs: 0,
            samples: Vec::new(),
        }
    }

    fn note_violation(&mut self, idx: u64, rec: WRecord, v: WViolation) {
        self.violating_runs += 1;
        let class = v.class();
        match self.violations.get(&class) {
            Some((i, _, _)) if *i <= idx => {}
            _ => {
                self.violations.insert(class, (idx, rec, v));
            }
        }
    }

    fn account(&mut self, rec: &WRecord, co: &WCheckOut, buf: usize) {
        let out = &co.out;
        self.sink_calls += out.log.calls as u64;
        self.ops += rec.script.len() as u64;
        self.bytes += out.expected.len() as u64;
        self.roundtrip_values += co.roundtrip_values as u64;
        let l = &out.log;
        self.faults.add(0, l.partial_accepts as u64);
        self.faults.add(1, l.accept_one as u64);
        self.faults.add(2, l.accept_all_but_one as u64);
        self.faults.add(3, l.intr as u64);
        if l.max_burst >= 2 {
            self.faults.hit(4);
        }
        self.faults.add(5, l.intr_during_flush_op as u64);
        self.faults.add(6, l.intr_during_drop as u64);

        let p = &mut self.probes;
        for (i, (kind, pending, len)) in out.probes.starts.iter().enumerate() {
            let near = *pending + 45 >= buf && *pending <= buf && *len > 0;
            if near {
                match *kind {
                    "int" => {
                        p.hit(wprobe("int_starts_within_45_of_boundary"));
                        if let WOp::Int(Val::Int(iv)) = &rec.script[i] {
                            self.int_types_at_boundary[iv.ty.index()] += 1;
                        }
                    }
                    "str" | "fill" => p.hit(wprobe("str_starts_within_45_of_boundary")),
                    "char" => p.hit(wprobe("char_starts_within_45_of_boundary")),
                    "vec" => p.hit(wprobe("vec_starts_within_45_of_boundary")),
                    "tuple" => p.hit(wprobe("tuple_starts_within_45_of_boundary")),
                    "macro" => p.hit(wprobe("macro_starts_within_45_of_boundary")),
                    "nested" => p.hit(wprobe("nested_container_starts_within_45_of_boundary")),
                    _ => {}
                }
            }
            if *len > 0 && pending + len == buf {
                p.hit(wprobe("piece_ends_exactly_at_boundary"));
            }
            if *len > 0 && pending + len > buf && *pending > 0 {
                p.hit(wprobe("write_would_overflow_buffer"));
            }
            if matches!(*kind, "str" | "fill") {
                if *len == buf {
                    p.hit(wprobe("string_exactly_buffer_size"));
                }
                if *len > buf {
                    p.hit(wprobe("string_crosses_one_buffer"));
                }
                if *len > 2 * buf {
                    p.hit(wprobe("string_crosses_two_buffers"));
                }
            }
            if *len == 0 && matches!(*kind, "str" | "fill" | "vec") {
                p.hit(wprobe("empty_string_or_vec"));
            }
            if *kind == "macro" {
                p.hit(wprobe("macro_path_used"));
            }
            if *kind == "nested" {
                p.hit(wprobe("nested_container_written"));
            }
            if let WOp::Int(Val::Int(iv)) = &rec.script[i] {
                if (iv.neg && iv.mag == iv.ty.min_mag()) || (!iv.neg && iv.mag == iv.ty.max_mag()) {
                    p.hit(wprobe("extreme_value_written"));
                    if iv.ty.bits() == 128 {
                        p.hit(wprobe("longest_rendering_i128_or_u128"));
                    }
                }
            }
        }
        p.add(wprobe("sink_called_during_write_op"), out.probes.flushed_during_op as u64);
        p.add(wprobe("flush_on_empty_buffer"), out.probes.flush_on_empty as u64);
        if out.probes.pending_at_drop == 0 {
            p.hit(wprobe("drop_with_empty_buffer"));
        } else {
            p.hit(wprobe("drop_with_pending_bytes"));
        }
        if co.roundtrip_values > 0 {
            p.hit(wprobe("roundtrip_executed"));
        }
        p.add(wprobe("sink_write_vectored_called"), l.vectored_calls as u64);

        // interleaving digest: (operation kind, fill level when it started, length) sequence
        // plus the beginning of the sink's call pattern
        let nontrivial = l.partial_accepts > 0 || l.intr > 0 || out.probes.starts.iter().any(|(_, pend, len)| *pend > 0 && pend + len > buf);
        if nontrivial {
            let mut d = Digest::new();
            for (k, pend, len) in &out.probes.starts {
                d.bytes(k.as_bytes());
                d.word(*pend as u64);
                d.word(*len as u64);
            }
            d.byte(0xfe);
            for (o, a) in &l.first_calls {
                d.word(*o as u64);
                d.word(*a as u64);
            }
            self.digests.insert(d.finish());
        }
    }
}

fn one(acc: &mut Acc, idx: u64, rec: WRecord, buf: usize, sample: bool) {
    let co = check(&rec);
    acc.account(&rec, &co, buf);
    if sample && acc.samples.len() < 3 && rec.script.len() <= 8 {
        acc.samples.push(Json::obj().with("run_index", Json::n(idx as i128)).with("record", rec.to_json()).with("sink_received_bytes", Json::u(co.out.received.len())));
    }
    if let Some(v) = co.violation {
        acc.note_violation(idx, rec, v);
    }
}

/// The explicit sweep: every fill level in [BUF-45, BUF] x every integer type x
/// {MAX, MIN, one digit short, 0} (+ at `depth` 1: strings / tuples / vectors of every short
/// length), under an all-accepting sink and under a stuttering, interrupting one.
fn sweep_case(case: u64, buf: usize, depth: u64) -> Option<WRecord> {
    let d = (case % 46) as usize;
    let rest = case / 46;
    let variant = (rest % 2) as usize;
    let rest = rest / 2;
    let trace = if variant == 0 {
        WTrace::default()
    } else {
        WTrace { events: vec![WEv::Intr, WEv::Accept(1), WEv::Intr, WEv::Intr, WEv::AllButOne, WEv::Accept(3), WEv::Intr, WEv::Accept(usize::MAX), WEv::Accept(1), WEv::AllButOne], rest_max: 0 }
    };
    let fill = WOp::Fill { len: buf - d, salt: d as u8, string: false };
    let n_int = 12 * 4;
    if rest < n_int {
        let ty = ALL_INT[(rest % 12) as usize];
        let which = rest / 12;
        let v = match which {
            0 => IntVal { ty, neg: false, mag: ty.max_mag() },
            1 => IntVal { ty, neg: ty.signed(), mag: if ty.signed() { ty.min_mag() } else { ty.max_mag() - 1 } },
            2 => IntVal { ty, neg: ty.signed(), mag: ty.max_mag() / 10 },
            _ => IntVal { ty, neg: false, mag: 0 },
        };
        let v = Val::Int(v);
        return Some(WRecord { script: vec![fill, WOp::Int(v.clone()), WOp::Char(b' '), WOp::Int(v), WOp::Char(b'\n')], trace, readback: None });
    }
    // every digit count of the 64- and 128-bit types, smallest and largest value of that length,
    // both signs: a size estimate that is short for ONE rendering length (or one bit length: the
    // smallest d-digit number 10^(d-1) sits right above a power of two for some d) only shows
    // at the fill level that leaves exactly that many bytes
    let rest = rest - n_int;
    let wide: [(IntTy, u32); 6] = [(IntTy::U128, 39), (IntTy::I128, 39), (IntTy::U64, 20), (IntTy::I64, 19), (IntTy::Usize, 20), (IntTy::Isize, 19)];
    let n_wide: u64 = wide.iter().map(|(t, d)| *d as u64 * if t.signed() { 4 } else { 2 }).sum();
    if rest < n_wide {
        let mut r = rest;
        for (ty, digits) in wide {
            let per = if ty.signed() { 4 } else { 2 };
            let block = digits as u64 * per;
            if r < block {
                let d = (r / per) as u32 + 1; // digit count 1..=digits
                let which = r % per;
                let lo = 10u128.pow(d - 1);
                let hi = if d == 39 { u128::MAX } else { 10u128.pow(d) - 1 };
                let neg = ty.signed() && which >= 2;
                let lim = if neg { ty.min_mag() } else { ty.max_mag() };
                let mag = (if which % 2 == 0 { lo } else { hi }).min(lim);
                let v = Val::Int(IntVal { ty, neg: neg && mag != 0, mag });
                return Some(WRecord { script: vec![fill, WOp::Int(v.clone()), WOp::Char(b' '), WOp::Int(v)], trace, readback: None });
            }
            r -= block;
        }
    }
    if depth == 0 {
        return None;
    }
    let rest = rest - n_wide;
    if rest < 64 {
        // string of every length 0..=63, then a second one
        let len = rest as usize;
        let s: Vec<u8> = fill_bytes(len, 77);
        return Some(WRecord { script: vec![fill, WOp::Str(s.clone(), len % 2 == 0), WOp::Str(s, len % 2 == 1)], trace, readback: None });
    }
    let rest = rest - 64;
    if rest < TUPLES.len() as u64 {
        let k = rest as usize;
        let vals: Vec<Val> = TUPLES[k]
            .iter()
            .map(|t| match t {
                ElemTy::Int(ty) => Val::Int(IntVal { ty: *ty, neg: ty.signed(), mag: if ty.signed() { ty.min_mag() } else { ty.max_mag() } }),
                _ => Val::Str(b"s".to_vec()),
            })
            .collect();
        return Some(WRecord { script: vec![fill, WOp::Tuple(k, vals)], trace, readback: None });
    }
    let rest = rest - TUPLES.len() as u64;
    if rest < 12 {
        let ty = ALL_INT[rest as usize];
        let vals: Vec<Val> = (0..4).map(|i| Val::Int(IntVal { ty, neg: ty.signed() && i % 2 == 0, mag: if i % 2 == 0 && ty.signed() { ty.min_mag() } else { ty.max_mag() } })).collect();
        return Some(WRecord { script: vec![fill, WOp::Vec(ElemTy::Int(ty), vals)], trace, readback: None });
    }
    None
}

fn sweep_size(depth: u64) -> u64 {
    let wide = 2 * 39 + 4 * 39 + 2 * 20 + 4 * 19 + 2 * 20 + 4 * 19;
    let per_level = if depth == 0 { 48 + wide } else { 48 + wide + 64 + TUPLES.len() as u64 + 12 };
    46 * 2 * per_level
}

pub fn run(master: u64, runs: u64, sweep: u64, replay_dir: &str, tag: &str) -> Json {
    let buf = buf_size();
    let workers = workers_from_env();
    let sweep_n = sweep_size(sweep.saturating_sub(1));
    let do_sweep = sweep > 0;
    let total = runs + if do_sweep { sweep_n } else { 0 };
    let t0 = std::time::Instant::now();
    let accs = par_for(
        total,
        workers,
        |_| Acc::new(),
        move |acc, idx, cutoff| {
            let before = acc.violating_runs;
            if idx < runs {
                acc.runs += 1;
                one(acc, idx, build_run(master, idx, buf), buf, idx % 11 == 5);
            } else if let Some(rec) = sweep_case(idx - runs, buf, sweep.saturating_sub(1)) {
                acc.sweep_runs += 1;
                one(acc, idx, rec, buf, false);
            }
            if acc.violating_runs > before {
                cutoff.lower_to(idx + 4096);
            }
        },
    );
    let wall = t0.elapsed().as_secs_f64();

    let mut m = Acc::new();
    let mut first_violation = u64::MAX;
    for a in &accs {
        for (_, (i, _, _)) in &a.violations {
            first_violation = first_violation.min(*i);
        }
    }
    let horizon = first_violation.saturating_add(4096);
    for a in accs {
        m.runs += a.runs;
        m.sweep_runs += a.sweep_runs;
        m.sink_calls += a.sink_calls;
        m.ops += a.ops;
        m.bytes += a.bytes;
        m.roundtrip_values += a.roundtrip_values;
        m.faults.merge(&a.faults);
        m.probes.merge(&a.probes);
        for i in 0..12 {
            m.int_types_at_boundary[i] += a.int_types_at_boundary[i];
        }
        m.digests.extend(a.digests);
        m.violating_runs += a.violating_runs;
        for (c, (i, r, v)) in a.violations {
            if i > horizon {
                continue;
            }
            match m.violations.get(&c) {
                Some((j, _, _)) if *j <= i => {}
                _ => {
                    m.violations.insert(c, (i, r, v));
                }
            }
        }
        m.samples.extend(a.samples);
    }
    if m.int_types_at_boundary.iter().all(|c| *c > 0) {
        m.probes.hit(wprobe("all_12_int_types_at_boundary"));
    }
    m.samples.sort_by_key(|s| s.num_of("run_index").unwrap_or(0));
    m.samples.truncate(3);

    let mut vio_json = Vec::new();
    for (class, (idx, rec, v)) in m.violations.iter().take(12) {
        let (mut min_rec, evals) = minimise(rec, class, 4_000);
        let final_v = match check(&min_rec).violation {
            Some(fv) => fv,
            None => {
                // never pair a violation with a record that does not show it
                min_rec = rec.clone();
                v.clone()
            }
        };
        let path = format!("{}/C09-{}-{}-{}.json", replay_dir, tag, master, idx);
        let file = Json::obj()
            .with("property", Json::s("C09"))
            .with("seed", Json::n(master as i128))
            .with("run_index", Json::n(*idx as i128))
            .with("profile", Json::s(tag))
            .with("violation", final_v.to_json())
            .with("minimiser_evaluations", Json::u(evals))
            .with("original_size", Json::obj().with("ops", Json::u(rec.script.len())).with("sink_events", Json::u(rec.trace.events.len())))
            .with("record", min_rec.to_json());
        let written = std::fs::write(&path, file.pretty()).is_ok();
        vio_json.push(
            Json::obj()
                .with("class", Json::s(class))
                .with("run_index", Json::n(*idx as i128))
                .with("detail", Json::s(&final_v.detail))
                .with("replay", Json::s(&path))
                .with("replay_written", Json::Bool(written)),
        );
    }

    Json::obj()
        .with("engine", Json::s("iosim-writer"))
        .with("property", Json::s("C09"))
        .with("profile", Json::s(tag))
        .with("debug_assertions", Json::Bool(cfg!(debug_assertions)))
        .with("seed", Json::n(master as i128))
        .with("workers", Json::u(workers))
        .with("buffer_size", Json::u(buf))
        .with("runs", Json::n((m.runs + m.sweep_runs) as i128))
        .with("seeded_runs", Json::n(m.runs as i128))
        .with("sweep_runs", Json::n(m.sweep_runs as i128))
        .with("executions", Json::n((m.runs + m.sweep_runs) as i128))
        .with("simulated_sink_calls", Json::n(m.sink_calls as i128))
        .with("operations_checked", Json::n(m.ops as i128))
        .with("stream_bytes_checked", Json::n(m.bytes as i128))
        .with("roundtrip_values_read_back", Json::n(m.roundtrip_values as i128))
        .with("faults_fired", m.faults.to_json())
        .with("probes", m.probes.to_json())
        .with("int_types_started_within_45_of_boundary", Json::Obj(ALL_INT.iter().map(|t| (t.name().to_string(), Json::n(m.int_types_at_boundary[t.index()] as i128))).collect()))
        .with("probes_at_zero", Json::Arr(m.probes.zeros().iter().map(|s| Json::s(s)).collect()))
        .with("distinct_interleavings", Json::u(m.digests.len()))
        .with("violating_runs", Json::n(m.violating_runs as i128))
        .with("violations", Json::Arr(vio_json))
        .with("samples", Json::Arr(m.samples))
        .with("wall_s", Json::Float(wall))
}

pub fn replay_by_index(b: &Json) -> i32 {
    let g = |k: &str| b.num_of(k).unwrap_or(0) as u64;
    let (seed, idx, runs, sweep) = (g("seed"), g("index"), g("runs"), g("extra"));
    let buf = buf_size();
    println!("replaying writer run index {} of seed {} (runs {}, sweep {})", idx, seed, runs, sweep);
    let res = simcore::par::with_timeout(simcore::par::hang_limit(), move || {
        let rec = if idx < runs { Some(build_run(seed, idx, buf)) } else { sweep_case(idx - runs, buf, sweep.saturating_sub(1)) };
        rec.and_then(|r| check(&r).violation.map(|v| (v.class(), v.detail)))
    });
    match res {
        None => {
            println!("REPLAY-VIOLATION class=writer/hang// detail=the run did not finish within {} s", simcore::par::hang_limit().as_secs());
            1
        }
        Some(Some((c, d))) => {
            println!("REPLAY-VIOLATION class={} detail={}", c, d);
            1
        }
        Some(None) => {
            println!("REPLAY-CLEAN");
            0
        }
    }
}

pub fn replay(j: &Json) -> i32 {
    if let Some(b) = j.get("by_index") {
        return replay_by_index(b);
    }
    let rec = match WRecord::from_json(j) {
        Some(r) => r,
        None => {
            eprintln!("iosim: malformed writer record");
            return 2;
        }
    };
    let co = check(&rec);
    println!(
        "sink: {} calls, {} partial accepts, {} interrupted; received {} bytes, model stream {} bytes",
        co.out.log.calls,
        co.out.log.partial_accepts,
        co.out.log.intr,
        co.out.received.len(),
        co.out.expected.len()
    );
    if let (Some(delivery), Some((ops, expect))) = (&rec.readback, roundtrip_script(&rec.script)) {
        let out = crate::rsim::exec(&co.out.received, &ops, delivery);
        println!("read back {} values through the Reader ({} read calls, cuts at {:?}):", expect.len(), out.log.calls, out.log.cuts);
        for (i, e) in expect.iter().enumerate() {
            let got = out.results.get(i).map(|s| s.as_str()).unwrap_or("<nothing>");
            if got != e {
                println!("  value {}: wrote {} read {}", i, e, got);
            }
        }
        if let Some(m) = &out.panicked {
            println!("  reader panicked: {}", m);
        }
    }
    match co.violation {
        Some(v) => {
            println!("REPLAY-VIOLATION class={} detail={}", v.class(), v.detail);
            1
        }
        None => {
            println!("REPLAY-CLEAN");
            0
        }
    }
}

pub fn digests(master: u64, runs: u64) {
    let buf = buf_size();
    let workers = workers_from_env();
    let accs = par_for(
        runs,
        workers,
        |_| Vec::<(u64, u64)>::new(),
        move |acc, idx, _| {
            let rec = build_run(master, idx, buf);
            let co = check(&rec);
            let mut d = Digest::new();
            d.bytes(rec.to_json().to_string().as_bytes());
            d.bytes(&co.out.received);
            d.word(co.out.log.calls as u64);
            for (o, a) in &co.out.log.first_calls {
                d.word(*o as u64);
                d.word(*a as u64);
            }
            for (k, p, l) in &co.out.probes.starts {
                d.bytes(k.as_bytes());
                d.word(*p as u64);
                d.word(*l as u64);
            }
            d.bytes(co.violation.map(|v| v.class()).unwrap_or_default().as_bytes());
            acc.push((idx, d.finish()));
        },
    );
    let mut all: Vec<(u64, u64)> = accs.into_iter().flatten().collect();
    all.sort_unstable();
    for (i, d) in all {
        println!("{} {:016x}", i, d);
    }
}
