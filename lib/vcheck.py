"""Orchestration for /verif/check: builds the simulators against /repo's working tree, runs
them, verifies every reported violation by replaying its minimised record in a fresh process,
applies the known-findings list, and writes the evidence file.  All exploration, oracles and
minimisation live in the Rust simulators under /verif/sim; nothing here makes a random choice."""

import json, os, re, subprocess, sys, time, shutil

VERIF = os.path.dirname(os.path.dirname(os.path.abspath(__file__)))
REPO = "/repo"
SIM = os.path.join(VERIF, "sim")
TARGET = os.path.join(SIM, "target")
WORK = os.path.join(VERIF, "work")
REPLAYS = os.path.join(VERIF, "replays")
EVIDENCE = os.path.join(VERIF, "evidence")
KNOWN = os.path.join(VERIF, "known_findings.txt")
DEFAULT_SEED = 20261002

ENV = dict(os.environ)
ENV["CARGO_NET_OFFLINE"] = "true"
ENV["CARGO_TARGET_DIR"] = TARGET
ENV.pop("RUSTFLAGS", None)


class HarnessError(Exception):
    pass


class ContainedStop(Exception):
    """The batch was cut short by a hang/crash of the code under test; the verdict is final."""

    def __init__(self, code):
        self.code = code


def log(msg):
    print(msg, flush=True)


def seed_from_env():
    s = os.environ.get("VERIF_SEED", "").strip()
    if not s:
        return DEFAULT_SEED
    try:
        return int(s) & 0xFFFFFFFFFFFFFFFF
    except ValueError:
        h = 0xCBF29CE484222325
        for b in s.encode():
            h = ((h ^ b) * 0x100000001B3) & 0xFFFFFFFFFFFFFFFF
        return h


def workers():
    try:
        w = int(os.environ.get("VERIF_WORKERS", "0"))
    except ValueError:
        w = 0
    return w if w > 0 else min(16, os.cpu_count() or 4)


def cargo_build(package, profile):
    """Builds one simulator package in one profile from /repo's current working tree."""
    cmd = ["cargo", "build", "--offline", "--quiet", "--manifest-path", os.path.join(SIM, "Cargo.toml"), "--profile", profile, "-p", package]
    t0 = time.time()
    p = subprocess.run(cmd, cwd=SIM, env=ENV, stdout=subprocess.PIPE, stderr=subprocess.STDOUT, text=True)
    if p.returncode != 0:
        sys.stderr.write(p.stdout[-6000:])
        raise HarnessError("build of %s (%s) failed" % (package, profile))
    return os.path.join(TARGET, profile, package), time.time() - t0


# A change under test may loop while allocating (a token loop that never advances): the simulators
# run with a capped address space, so that this ends in an allocation-failure abort (handled like
# any other crash of the code under test) instead of exhausting the machine.  cargo / Miri are not
# capped.
MEM_CAP = 32 << 30


def run(cmd, timeout=None, env=None, cwd=None):
    if os.path.dirname(cmd[0]).startswith(TARGET) and os.path.exists("/usr/bin/prlimit"):
        cmd = ["/usr/bin/prlimit", "--as=%d" % MEM_CAP] + list(cmd)
    p = subprocess.run(cmd, cwd=cwd or VERIF, env=env or ENV, stdout=subprocess.PIPE, stderr=subprocess.PIPE, text=True, timeout=timeout)
    return p.returncode, p.stdout, p.stderr


def load_known():
    """known_findings.txt: `known: property=<id> class=<regex> :: <what fails>` lines are
    findings that are reported but do not fail the check; `fixed:` lines suppress nothing."""
    known = []
    if os.path.exists(KNOWN):
        for line in open(KNOWN):
            line = line.strip()
            m = re.match(r"known:\s+property=(\S+)\s+class=(.+?)\s+::\s+(.*)$", line)
            if m:
                known.append((m.group(1), re.compile(m.group(2)), m.group(3)))
    return known


def ensure_dirs():
    for d in (WORK, REPLAYS, EVIDENCE):
        os.makedirs(d, exist_ok=True)


def write_evidence(prop, tier, seed, level, coverage, assumptions, wall, violations):
    ensure_dirs()
    ev = {
        "property_id": prop,
        "tier": tier,
        "seed": seed,
        "level": level,
        "coverage": coverage,
        "assumptions": assumptions,
        "wall_s": round(wall, 3),
        "violations": violations,
    }
    path = os.path.join(EVIDENCE, prop + ".json")
    tmp = path + ".tmp"
    with open(tmp, "w") as f:
        json.dump(ev, f, indent=1)
        f.write("\n")
    os.replace(tmp, path)
    return path


def settle(prop, found, replay_fn):
    """found: list of dicts {class, detail, replay}.  Each is replayed in a fresh process; a
    violation that does not reproduce is a harness bug (exit 2), never a finding.
    Returns the number of violations that are not known findings."""
    known = load_known()
    real = 0
    for v in found:
        rc, out = replay_fn(v["replay"])
        if rc != 1 or ("class=" + v["class"]) not in out:
            log("HARNESS-ERROR: violation %r did not reproduce from %s (replay exit %s)" % (v["class"], v["replay"], rc))
            log(out[-2000:])
            raise HarnessError("non-reproducible violation")
        kf = [d for (p, rx, d) in known if p == prop and rx.search(v["class"])]
        if kf:
            log("KNOWN-FINDING: property=%s %s [class %s, replay %s]" % (prop, kf[0], v["class"], v["replay"]))
            try:
                os.remove(v["replay"])
            except OSError:
                pass
        else:
            real += 1
            log("VIOLATION property=%s replay=%s" % (prop, v["replay"]))
            log("  class:  " + v["class"])
            log("  detail: " + v["detail"][:1500])
    return real


# ---------------------------------------------------------------------------------------------
# containment: code under test that hangs or kills the simulator process


def by_index_file(prop, engine, cls, detail, params, profile=None):
    ensure_dirs()
    rec = {"property": prop, "violation": {"class": cls, "detail": detail}, "record": {"engine": engine, "by_index": params}}
    if profile:
        rec["profile"] = profile
    path = os.path.join(REPLAYS, "%s-%s-%d-%d.json" % (prop, cls.split("/")[1], params["seed"], params["index"]))
    with open(path, "w") as f:
        json.dump(rec, f, indent=1)
    return path


def run_contained(cmd, env, out_path, prop, engine, family, params, profile=None, replay_bin=None):
    """Runs a simulator batch.  Returns (summary or None, found).  A hang (the simulator's watchdog
    exits with status 3) or an abort (signal, double panic, stack overflow) of the code under test
    becomes a replayable by-index violation instead of a harness error."""
    rc, so, se = run(cmd, env=env, timeout=12 * 3600)
    if rc == 0 and os.path.exists(out_path):
        return json.load(open(out_path)), []
    m = re.search(r"SIM-HANG index=(\d+)", se)
    if rc == 3 and m:
        idx = int(m.group(1))
        cls = "%s/hang//" % family
        path = by_index_file(prop, engine, cls, "run %d did not finish: the code under test hangs (watchdog)" % idx, dict(params, index=idx), profile)
        return None, [{"class": cls, "detail": "run index %d hangs" % idx, "replay": path}]
    if rc < 0 or rc in (101, 134, 139):
        # forensic re-run: every worker records the index it is about to execute
        prog = os.path.join(WORK, "progress-%s" % prop)
        env2 = dict(env)
        env2["VERIF_PROGRESS_FILE"] = prog
        run(cmd, env=env2, timeout=12 * 3600)
        cands = set()
        for f in os.listdir(WORK):
            if f.startswith("progress-%s." % prop):
                try:
                    cands.add(int(open(os.path.join(WORK, f)).read().split()[0]))
                except (ValueError, IndexError):
                    pass
                os.remove(os.path.join(WORK, f))
        cls = "%s/crash//" % family
        for idx in sorted(cands):
            path = by_index_file(prop, engine, cls, "run %d kills the process (abort / stack overflow / double panic in the code under test)" % idx, dict(params, index=idx), profile)
            rc2, _, _ = run([replay_bin or cmd[0], "replay", path], timeout=600)
            if rc2 < 0 or rc2 in (101, 134, 139):
                return None, [{"class": cls, "detail": "run index %d kills the process (status %s)" % (idx, rc2), "replay": path}]
            os.remove(path)
        sys.stderr.write(so[-2000:] + se[-4000:])
        raise HarnessError("simulator died with status %s and no single run reproduces it" % rc)
    sys.stderr.write(so[-2000:] + se[-4000:])
    raise HarnessError("simulator exited with status %s" % rc)


def normalise_replay(rc, text, path):
    """A replay that dies is a reproduced crash; map it to the class recorded in the file."""
    if rc < 0 or rc > 2:
        try:
            cls = (json.load(open(path)).get("violation") or {}).get("class", "crash")
        except (OSError, ValueError):
            cls = "crash"
        return 1, text + "\nREPLAY-VIOLATION class=%s detail=process terminated abnormally (status %s)\n" % (cls, rc)
    return rc, text


# ---------------------------------------------------------------------------------------------
# iosim (C08, C09)

IOSIM_TIERS = {
    # property: tier: (runs, extra)   extra = long runs (C08) / sweep depth (C09)
    "C08": {"quick": (300_000, 3_000), "thorough": (6_000_000, 40_000)},
    "C09": {"quick": (60_000, 1), "thorough": (1_500_000, 2)},
}


# value census (sim/iosim/src/census.rs): (side, profile tag, every32, wide blocks per type);
# every32 = 1 enumerates all 2^32 values of u32 and of i32
CENSUS_TIERS = {
    "C08": {"quick": [("reader", "rel", 16, 64), ("reader", "dbg", 64, 16)], "thorough": [("reader", "rel", 1, 2048), ("reader", "dbg", 4, 512)]},
    "C09": {
        "quick": [("writer", "rel", 16, 64), ("writer", "dbg", 64, 16), ("reader", "rel", 64, 16)],
        "thorough": [("writer", "rel", 1, 2048), ("writer", "dbg", 4, 512), ("reader", "rel", 4, 512)],
    },
}


# marathon (sim/iosim/src/marathon.rs): one Reader / Writer instance over a very long stream;
# (profile tag, MiB).  The thorough size passes 2^32 bytes.  Started first, collected last: it
# runs on one core next to the other batches.
MARATHON_TIERS = {"quick": [("rel", 160), ("dbg", 24)], "thorough": [("rel", 4200), ("dbg", 300)]}


PROFILE_OF_TAG = {"rel": "sim-rel", "dbg": "sim-dbg", "reloc": "sim-rel-oc", "dbgnoc": "sim-dbg-noc"}
# the two cross combinations of debug-assertions / overflow-checks: (runs, extra) per property and tier
CROSS_TIERS = {"C08": {"quick": (40_000, 300), "thorough": (600_000, 4_000)}, "C09": {"quick": (10_000, 1), "thorough": (150_000, 1)}}


def iosim_replay(path):
    rec = json.load(open(path))
    profile = PROFILE_OF_TAG.get(rec.get("profile", "rel"), "sim-rel")
    binary, _ = cargo_build("iosim", profile)
    rc, out, err = run([binary, "replay", path], timeout=600)
    return normalise_replay(rc, out + err, path)


def merge_counts(a, b):
    out = dict(a)
    for k, v in b.items():
        out[k] = out.get(k, 0) + v
    return out


def check_iosim(prop, tier, seed):
    ensure_dirs()
    t0 = time.time()
    runs, extra = IOSIM_TIERS[prop][tier]
    sub = "reader" if prop == "C08" else "writer"
    summaries = {}
    contained = []
    build_s = 0.0
    marathons = []
    for tag, mib in MARATHON_TIERS[tier]:
        binary, bs = cargo_build("iosim", {"rel": "sim-rel", "dbg": "sim-dbg"}[tag])
        build_s += bs
        mout = os.path.join(WORK, "%s-%s-marathon-%s.json" % (prop, tier, tag))
        if os.path.exists(mout):
            os.remove(mout)
        mcmd = [binary, "marathon", "--side", sub, "--mib", str(mib), "--seed", str(seed), "--out", mout, "--replay-dir", REPLAYS, "--tag", tag]
        if os.path.exists("/usr/bin/prlimit"):
            mcmd = ["/usr/bin/prlimit", "--as=%d" % MEM_CAP] + mcmd
        marathons.append((tag, mib, mout, subprocess.Popen(mcmd, cwd=VERIF, env=ENV, stdout=subprocess.PIPE, stderr=subprocess.PIPE, text=True)))
    for tag, profile in (("rel", "sim-rel"), ("dbg", "sim-dbg")):
        binary, bs = cargo_build("iosim", profile)
        build_s += bs
        out = os.path.join(WORK, "%s-%s-%s.json" % (prop, tier, tag))
        if os.path.exists(out):
            os.remove(out)
        cmd = [binary, sub, "--runs", str(runs), "--seed", str(seed), "--out", out, "--replay-dir", REPLAYS, "--tag", tag]
        cmd += ["--long", str(extra)] if prop == "C08" else ["--sweep", str(extra)]
        env = dict(ENV)
        env["VERIF_WORKERS"] = str(workers())
        summ, extra_found = run_contained(cmd, env, out, prop, "iosim-" + sub, sub, {"seed": seed, "runs": runs, "extra": extra, "index": 0}, profile=tag)
        contained.extend(extra_found)
        if summ is not None:
            summaries[tag] = summ

    found = list(contained)
    for tag, s in summaries.items():
        for v in s["violations"]:
            found.append({"class": v["class"], "detail": v["detail"], "replay": v["replay"]})

    cross = []
    cruns, cextra = CROSS_TIERS[prop][tier]
    for tag in ("reloc", "dbgnoc"):
        binary, bs = cargo_build("iosim", PROFILE_OF_TAG[tag])
        build_s += bs
        out = os.path.join(WORK, "%s-%s-%s.json" % (prop, tier, tag))
        if os.path.exists(out):
            os.remove(out)
        cmd = [binary, sub, "--runs", str(cruns), "--seed", str(seed ^ 0xC2055), "--out", out, "--replay-dir", REPLAYS, "--tag", tag]
        cmd += ["--long", str(cextra)] if prop == "C08" else ["--sweep", str(cextra)]
        env = dict(ENV)
        env["VERIF_WORKERS"] = str(workers())
        summ, extra_found = run_contained(cmd, env, out, prop, "iosim-" + sub, sub, {"seed": seed ^ 0xC2055, "runs": cruns, "extra": cextra, "index": 0}, profile=tag)
        found.extend(extra_found)
        if summ is not None:
            cross.append({"profile": PROFILE_OF_TAG[tag], "debug_assertions": summ["debug_assertions"], "runs": summ["runs"], "executions": summ["executions"], "wall_s": summ["wall_s"]})
            for v in summ["violations"]:
                found.append({"class": v["class"], "detail": v["detail"], "replay": v["replay"]})

    census = []
    for side, tag, every32, wide in CENSUS_TIERS[prop][tier]:
        binary, bs = cargo_build("iosim", {"rel": "sim-rel", "dbg": "sim-dbg"}[tag])
        build_s += bs
        out = os.path.join(WORK, "%s-%s-census-%s-%s.json" % (prop, tier, side, tag))
        if os.path.exists(out):
            os.remove(out)
        cmd = [binary, "census", "--side", side, "--every32", str(every32), "--wide-blocks", str(wide), "--seed", str(seed), "--out", out, "--replay-dir", REPLAYS, "--tag", tag]
        env = dict(ENV)
        env["VERIF_WORKERS"] = str(workers())
        rc, so, se = run(cmd, env=env, timeout=6 * 3600)
        if rc != 0 or not os.path.exists(out):
            # the item list is enumerable: a hang / abort inside an item is reported by the watchdog line
            m = re.search(r"SIM-HANG index=(\d+)", se)
            raise HarnessError("census (%s, %s) ended with status %s%s: %s" % (side, tag, rc, " at item %s" % m.group(1) if m else "", se[-400:]))
        cs = json.load(open(out))
        census.append(cs)
        for v in cs["violations"]:
            found.append({"class": v["class"], "detail": v["detail"], "replay": v["replay"]})

    marathon = []
    for tag, mib, mout, proc in marathons:
        try:
            so, se = proc.communicate(timeout=3 * 3600)
        except subprocess.TimeoutExpired:
            proc.kill()
            so, se = proc.communicate()
        if proc.returncode != 0 or not os.path.exists(mout):
            # an abort / hang of the code under test in the middle of the long stream
            cls = "%s/marathon//" % sub
            path = os.path.join(REPLAYS, "%s-marathon-%s-%d.json" % (prop, tag, seed))
            with open(path, "w") as f:
                json.dump({"property": prop, "profile": tag, "violation": {"class": cls, "detail": "the marathon process ended with status %s: %s" % (proc.returncode, se[-300:])}, "record": {"engine": "iosim-marathon", "side": sub, "seed": str(seed), "records": mib * (1 << 20) // 25}}, f, indent=1)
            found.append({"class": cls, "detail": "marathon (%s, %d MiB) ended with status %s" % (tag, mib, proc.returncode), "replay": path})
            continue
        ms = json.load(open(mout))
        marathon.append(ms)
        for v in ms["violations"]:
            found.append({"class": v["class"], "detail": v["detail"], "replay": v["replay"]})

    real = settle(prop, found, iosim_replay)
    if len(summaries) < 2:
        # a profile's batch was cut short by a hang/crash of the code under test: no coverage summary
        write_evidence(prop, tier, seed, "fault_enumeration", {"evaluations": 1, "distinct_nontrivial": 0, "rule": "batch aborted by a hang or crash of the code under test; see violations", "samples": [f["replay"] for f in found]}, [], time.time() - t0, real)
        return 1 if real else 0

    rel, dbg = summaries["rel"], summaries["dbg"]
    execs = rel["executions"] + dbg["executions"]
    wall = time.time() - t0
    sim_wall = rel["wall_s"] + dbg["wall_s"]
    cov = {
        "evaluations": execs,
        "distinct_nontrivial": max(rel["distinct_interleavings"], dbg["distinct_interleavings"]),
        "exhaustive": False,
        "simulated_runs": rel["runs"] + dbg["runs"],
        "runs_per_hour": int((rel["runs"] + dbg["runs"]) / max(sim_wall, 1e-9) * 3600),
        "seeds": "run i of the batch uses seed splitmix64((VERIF_SEED ^ salt) ^ i*phi); VERIF_SEED=%d; both build profiles execute the same run set" % seed,
        "simulated_time": "not applicable: nothing under test reads a clock; simulated steps are counted instead",
        "faults_fired": {"sim-rel": rel["faults_fired"], "sim-dbg": dbg["faults_fired"], "total": merge_counts(rel["faults_fired"], dbg["faults_fired"])},
        "probes": {"sim-rel": rel["probes"], "sim-dbg": dbg["probes"]},
        "probes_at_zero": sorted(set(rel["probes_at_zero"]) & set(dbg["probes_at_zero"])),
        "profiles": {
            "sim-rel": {"debug_assertions": rel["debug_assertions"], "runs": rel["runs"], "executions": rel["executions"], "wall_s": rel["wall_s"]},
            "sim-dbg": {"debug_assertions": dbg["debug_assertions"], "runs": dbg["runs"], "executions": dbg["executions"], "wall_s": dbg["wall_s"]},
        },
        "buffer_size_seen": rel["buffer_size"],
        "samples": rel["samples"][:2] + dbg["samples"][:1],
        "build_s": round(build_s, 2),
        "cross_profiles": {"what": "a reduced batch of the same runs in the two remaining combinations of the compiler switches: optimised with overflow checks on (sim-rel-oc) and debug assertions on with overflow checks off (sim-dbg-noc)", "batches": cross},
        "marathon": {
            "what": "ONE %s instance over a very long generated stream of records (i64, u32, word; LF / CRLF), read or written as single values, tuples, vectors of tuples and whole lines, with seeded mostly-large deliveries, stretches of small ones and bursts of Interrupted; state that accumulates over a long history (counters, offsets never rebased) is exercised" % ("Reader" if prop == "C08" else "Writer"),
            "runs": [{"profile": "sim-dbg" if m["debug_assertions"] else "sim-rel", "records": m["records_done"], "stream_bytes": m["stream_bytes"], "passes_2_pow_32_bytes": m["stream_bytes"] > (1 << 32), "seam_calls": m["seam_calls"], "partial_transfers": m["partial_transfers"], "interrupted": m["interrupted"], "wall_s": m["wall_s"]} for m in marathon],
        },
        "value_census": {
            "what": "integers through the seams by enumeration: all values of the 8- and 16-bit types; u32 and i32 in 65536 blocks of 65536 consecutive values, every K-th block (K = 1: all 2^32 values of each); "
            "for the 64/128-bit and pointer-sized types seeded blocks of 65536 consecutive values (straddling powers of ten, zero and the ends of the range among them) and the two-group family a*10^k+b with a, b in {10^j-1, 10^j, 10^j+1, 10^j/2, small}. "
            "Writer side: rendered into a sink that accepts partially / interrupts, grouped as single values, tuples and vectors, compared with std formatting after flush and after drop. "
            "Reader side: std-formatted text with seeded separators delivered in seeded cuts with Interrupted, read back as single values, tuples and read_vec, then is_eof.",
            "batches": [{"side": c["side"], "profile": "sim-dbg" if c["debug_assertions"] else "sim-rel", "every_kth_block_of_32_bit_types": c["every32"], "wide_blocks_per_type": c["wide_blocks"], "items": c["items_executed"], "values": c["values"], "bytes": c["bytes"], "values_by_type": c["values_by_type"], "seam_calls": c["seam_calls"], "partial_transfers": c["partial_transfers"], "interrupted": c["interrupted"], "wall_s": c["wall_s"]} for c in census],
            "values_total": sum(c["values"] for c in census),
            "exhaustive_for": sorted(set(["u8", "i8", "u16", "i16"] + (["u32", "i32"] if any(c["every32"] == 1 for c in census) else []))),
        },
    }
    if prop == "C08":
        cov["rule"] = (
            "A run = (ASCII input from the token/separator grammar, lawful script built against the reference model, "
            "2-6 delivery traces: whole, one byte per call, and seeded traces cutting at structural offsets with Interrupted bursts "
            "and scribbling of the unused slice tail). evaluations = executions of a (input, script, trace) triple against the real Reader. "
            "distinct_nontrivial = number of distinct digests of (byte-class sequence of the input, offsets where deliveries ended, "
            "offsets where Interrupted fired) among executions with at least one cut or fault (counted per profile; the profiles run the same set, the larger count is reported)."
        )
        cov["simulated_steps"] = {"read_calls": rel["simulated_read_calls"] + dbg["simulated_read_calls"], "operations_checked": rel["operations_checked"] + dbg["operations_checked"]}
        cov["runs_by_size_class"] = merge_counts(rel["runs_by_size_class"], dbg["runs_by_size_class"])
        cov["systematic_layer"] = {
            "what": "for sampled tiny inputs (2..10 bytes): all 2^(len-1) chunkings x {no fault, one Interrupted before each read call}; exhaustive for that sub-space only",
            "inputs": rel["exhaustive_layer"]["inputs"] + dbg["exhaustive_layer"]["inputs"],
            "executions": rel["exhaustive_layer"]["executions"] + dbg["exhaustive_layer"]["executions"],
        }
        cov["real_vs_stub"] = {"real": ["rlib_io::Reader", "all Readable impls (12 integer types, String, char, tuples 2..8)", "read_vec/read_line/read_lines/is_eof"], "stub": ["the byte source behind Box<dyn Read> (SimSource)"]}
        assumptions = [
            "ASCII inputs built from valid tokens and separators; scripts only issue reads for which a token of that type remains",
            "a zero-length read means end of input and is only returned at the end; Interrupted is transient (bursts are finite)",
            "reference model leaves two behaviours open: whether is_eof consumes the whitespace it skips, and whether an unterminated last line keeps a trailing lone CR",
            "sampling, not proof",
        ]
    else:
        cov["rule"] = (
            "A run = (script of writes of all supported types with a pre-fill that aims the buffer fill level at BUF-45..BUF, "
            "sink acceptance trace with partial accepts and Interrupted bursts, early end = drop at a seeded point); plus the explicit sweep "
            "(every fill level BUF-45..BUF x 12 integer types x {MAX, MIN, one digit short, 0} x 2 sink behaviours). Round-trip runs read the delivered text back through the real Reader twice: under a seeded delivery trace and in pipe mode (the Reader receives exactly the packets the sink accepted). "
            "evaluations = executed runs against the real Writer. distinct_nontrivial = number of distinct digests of "
            "(sequence of (operation kind, measured pending bytes at start, rendering length), first 128 sink calls as (offered, accepted|interrupted)) "
            "among runs with a partial accept, a fault, or a write that did not fit the remaining buffer space."
        )
        cov["simulated_steps"] = {"sink_write_calls": rel["simulated_sink_calls"] + dbg["simulated_sink_calls"], "operations_checked": rel["operations_checked"] + dbg["operations_checked"], "stream_bytes_checked": rel["stream_bytes_checked"] + dbg["stream_bytes_checked"]}
        cov["sweep_runs"] = rel["sweep_runs"] + dbg["sweep_runs"]
        cov["roundtrip_values_read_back"] = rel["roundtrip_values_read_back"] + dbg["roundtrip_values_read_back"]
        cov["int_types_started_within_45_of_boundary"] = rel["int_types_started_within_45_of_boundary"]
        cov["real_vs_stub"] = {"real": ["rlib_io::Writer incl. Drop", "all Writable impls", "out!/outln! macro expansions", "rlib_num_traits::BASE_10_LEN", "rlib_io::Reader (round trip)"], "stub": ["the byte sink behind Box<dyn Write> (SimSink)", "the byte source used for reading back (SimSource)"]}
        assumptions = [
            "ASCII strings and chars; the sink never returns Ok(0) for a non-empty slice and never a hard error (delivery would be impossible)",
            "fill levels are measured black-box as bytes issued minus bytes the sink has received",
            "the buffered regime is exercised by the sim-rel profile (debug-assertions off), the flush-per-write regime by sim-dbg",
            "sampling, not proof",
        ]
    write_evidence(prop, tier, seed, "fault_enumeration", cov, assumptions, wall, real)
    log("%s %s: %d runs, %d executions, %d distinct interleavings, %d violating classes (%d not known) in %.1fs" % (prop, tier, cov["simulated_runs"], execs, cov["distinct_nontrivial"], len(found), real, wall))
    return 1 if real else 0


# ---------------------------------------------------------------------------------------------
# treapsim (C03, C16)

MASK = 0xFFFFFFFFFFFFFFFF


def splitmix64(x):
    z = (x + 0x9E3779B97F4A7C15) & MASK
    z = ((z ^ (z >> 30)) * 0xBF58476D1CE4E5B9) & MASK
    z = ((z ^ (z >> 27)) * 0x94D049BB133111EB) & MASK
    return z ^ (z >> 31)


class PyRng:
    """splitmix64 stream; the orchestrator's only source of choices, seeded from VERIF_SEED."""

    def __init__(self, seed):
        self.s = seed & MASK

    def next(self):
        self.s = (self.s + 0x9E3779B97F4A7C15) & MASK
        return splitmix64(self.s)

    def below(self, n):
        return self.next() % n

    def pick(self, xs):
        return xs[self.below(len(xs))]


TREAP_TIERS = {
    "C03": {"quick": 1_000_000, "thorough": 20_000_000},
    # (controlled-priority runs watched for heap order, real-priority process runs, of which at n = 10^6)
    "C16": {"quick": (200_000, 192, 8), "thorough": (4_000_000, 1440, 48)},
}

N_HISTORIES = 16


def treap_ctl(seed, runs, tag):
    binary, bs = cargo_build("treapsim", "sim-dbg")
    out = os.path.join(WORK, "treap-ctl-%s.json" % tag)
    if os.path.exists(out):
        os.remove(out)
    env = dict(ENV)
    env["VERIF_WORKERS"] = str(workers())
    prop = tag.split("-")[0]
    summ, extra = run_contained([binary, "ctl", "--runs", str(runs), "--seed", str(seed), "--out", out, "--replay-dir", REPLAYS], env, out, prop, "treapsim", "treap", {"seed": seed, "index": 0})
    if summ is None:
        real = settle(prop, extra, treap_replay)
        write_evidence(prop, "quick", seed, "exploration", {"evaluations": 1, "distinct_nontrivial": 0, "rule": "batch aborted by a hang or crash of the code under test; see violations", "samples": [f["replay"] for f in extra]}, [], 0.0, real)
        raise ContainedStop(1 if real else 0)
    return summ, bs


PLAIN_BLOCKS = {"C03": {"quick": 1024, "thorough": 8192}, "C16": {"quick": 512, "thorough": 4096}}


def plain_ctl(prop, tier, seed):
    """The controlled histories once more, against rlib_treap AS SHIPPED (cargo feature `verif` off:
    code under cfg(not(feature = "verif")) and the unhooked gen_priority are what runs).  Without
    the hook the library's own generator answers the draws; one block of 64 histories per fresh
    process (first node-creating thread, seed 42) keeps every block a repeatable value.  Returns
    (summary, found, build seconds)."""
    from concurrent.futures import ThreadPoolExecutor

    binary, bs = cargo_build("treapsim_plain", "sim-dbg")
    blocks = PLAIN_BLOCKS[prop][tier]
    pseed = seed ^ 0x9A1
    t0 = time.time()

    def one(k):
        try:
            rc, so, se = run([binary, "ctlblock", "--seed", str(pseed), "--block", str(k)], timeout=300)
        except subprocess.TimeoutExpired:
            return {"crash": "timeout", "block": k}
        if rc != 0:
            return {"crash": "status %s: %s" % (rc, se[-200:]), "block": k}
        try:
            return json.loads(so)
        except ValueError:
            return {"crash": "unparsable output", "block": k}

    with ThreadPoolExecutor(max_workers=workers()) as ex:
        res = list(ex.map(one, range(blocks)))
    found, seen = [], set()
    steps = walks = runs = 0
    for r in res:
        if "crash" in r:
            cls, detail, frm, to, vprop = "treap/crash/plain/", "hook-free block %d terminated abnormally: %s" % (r["block"], r["crash"]), r["block"] * 64, r["block"] * 64 + 63, prop
            vs = [{"class": cls, "detail": detail, "run_index": to, "property": vprop}]
        else:
            steps += r["steps"]
            walks += r["invariant_walks"]
            runs += r["runs"]
            vs = r["violations"]
        for v in vs:
            if v["property"] != prop or v["class"] in seen:
                continue
            seen.add(v["class"])
            frm = (v["run_index"] // 64) * 64
            path = os.path.join(REPLAYS, "%s-plain-%d-%d.json" % (prop, seed, v["run_index"]))
            with open(path, "w") as f:
                json.dump({"property": prop, "violation": {"class": v["class"], "detail": v["detail"]}, "note": "hook-free build (rlib_treap as shipped): replayed as the block prefix in a fresh process", "record": {"engine": "treapsim", "plain": True, "by_index_block": {"seed": pseed, "from": frm, "to": v["run_index"]}}}, f, indent=1)
            found.append({"class": v["class"], "detail": v["detail"] + " [hook-free build]", "replay": path})
    summ = {"what": "the same history generator against rlib_treap built as shipped (no `verif` feature, no hook: priorities from the library's own generator, ManualInsert priorities still chosen); one block of 64 histories per fresh process", "blocks": blocks, "histories": runs, "steps": steps, "invariant_walks": walks, "wall_s": round(time.time() - t0, 2)}
    return summ, found, bs


def treap_replay(path):
    rec = json.load(open(path))
    engine = (rec.get("record") or rec).get("engine", "")
    profile = "sim-rel" if engine == "treapsim-real" else "sim-dbg"
    # real-priority runs and hook-free blocks run against the library as shipped (no `verif` feature)
    plain = engine == "treapsim-real" or bool((rec.get("record") or {}).get("plain"))
    binary, _ = cargo_build("treapsim_plain" if plain else "treapsim", profile)
    env = (rec.get("record") or {}).get("env")
    if env and env.get("LD_PRELOAD"):
        clock_shim()
    rc, out, err = run([binary, "replay", path], timeout=3600, env=dict(ENV, **env) if env else None)
    return normalise_replay(rc, out + err, path)


def ctl_coverage(c):
    return {
        "controlled_priority_runs": c["runs"],
        "steps": c["steps"],
        "invariant_walks": c["invariant_walks"],
        "hook_active": c["hook_active"],
        "runs_by_priority_strategy": c["runs_by_priority_strategy"],
        "runs_by_flavour": c["runs_by_flavour"],
        "probes": c["probes"],
        "probes_at_zero": c["probes_at_zero"],
        "distinct_states": c["distinct_states"],
        "distinct_states_capped": c["distinct_states_capped"],
        "shapes_reached_vs_catalan": c["shapes_reached"],
        "max_height_seen": c["max_height_seen"],
    }


def check_c03(tier, seed):
    ensure_dirs()
    t0 = time.time()
    runs = TREAP_TIERS["C03"][tier]
    c, build_s = treap_ctl(seed, runs, "C03-" + tier)
    mine = [v for v in c["violations"] if v["property"] == "C03"]
    other = [v for v in c["violations"] if v["property"] != "C03"]
    for v in other:
        log("note: a %s violation was seen (class %s); it is reported by ./check %s" % (v["property"], v["class"], v["property"]))
        try:
            os.remove(v["replay"])
        except OSError:
            pass
    # big-tree layer: the controlled histories stop at a few hundred elements; sizes beyond that
    # (position arithmetic, depth, anything with a threshold at 2^8, 2^15, 2^16 ...) are exercised
    # by real-priority histories whose final sequence is compared with a closed form or with an
    # exact vector replay; only the functional verdicts count for C03 here
    from concurrent.futures import ThreadPoolExecutor

    plain_summ, plain_found, bs3 = plain_ctl("C03", tier, seed)
    build_s += bs3
    mine.extend(plain_found)
    rbin, bs2 = cargo_build("treapsim_plain", "sim-rel")
    build_s += bs2
    rng = PyRng(seed ^ 0x3C03)
    big_cfgs = []
    for h in range(N_HISTORIES):
        big_cfgs.append({"history": h, "n": 20_000, "mode": 0, "stride": 1, "seed": rng.next() % (1 << 48)})
        big_cfgs.append({"history": h, "n": 100_000 if tier == "quick" else 300_000, "mode": 0, "stride": 1, "seed": rng.next() % (1 << 48)})
    if tier == "thorough":
        for h in (0, 1, 2, 5, 7, 10):
            big_cfgs.append({"history": h, "n": 1_000_000, "mode": 0, "stride": 1, "seed": rng.next() % (1 << 48)})
    with ThreadPoolExecutor(max_workers=workers()) as ex:
        big = list(ex.map(lambda cfg: real_run(rbin, cfg), big_cfgs))
    seen = set()
    for r in big:
        cfg = r["cfg"]
        if "crash" in r:
            cls, detail = "treap/crash/history%d/" % cfg["history"], "real-priority run %r terminated abnormally: %s" % (cfg, r["crash"])
        elif r.get("violation") and r["violation"]["class"].split("/")[1] in ("functional", "size"):
            cls, detail = r["violation"]["class"], r["violation"]["detail"]
        else:
            continue
        if cls in seen:
            continue
        seen.add(cls)
        small = minimise_real(rbin, cfg, cls)
        path = os.path.join(REPLAYS, "C03-real-%d-h%d-n%d.json" % (seed, small["history"], small["n"]))
        rec = real_record(small, {"class": cls, "detail": detail})
        rec["property"] = "C03"
        with open(path, "w") as f:
            json.dump(rec, f, indent=1)
        mine.append({"class": cls, "detail": detail, "replay": path})
    real = settle("C03", mine, treap_replay)
    wall = time.time() - t0
    cov = ctl_coverage(c)
    cov["hook_free_layer"] = plain_summ
    cov["big_tree_layer"] = {
        "what": "real-priority histories (all %d kinds) at n = 20000 and n = %d%s; final in-order sequence compared with a closed form or an exact vector replay of the logged operations, sizes and removed elements checked" % (N_HISTORIES, 100_000 if tier == "quick" else 300_000, " plus six at n = 10^6" if tier == "thorough" else ""),
        "process_runs": len(big),
        "largest_n": max([r.get("final_n", 0) for r in big if "crash" not in r] or [0]),
    }
    cov.update({
        "evaluations": c["runs"],
        "distinct_nontrivial": c["distinct_states"],
        "exhaustive": False,
        "rule": (
            "A run = (priority trace answering every priority draw of the library through the verif hook, drawn from one of 9 strategies "
            "incl. ties everywhere, all equal, spines, zigzag; operation history of <= 60 operations over a pool of <= 4 treaps, generated against the model state). "
            "After every step a non-mutating walk reconstructs every live treap's sequence from the public node fields (composing pending maps top-down) and checks "
            "every stored subtree aggregate. distinct_nontrivial = number of distinct digests of (tree shape, set of nodes holding a non-identity pending map) observed after steps"
            + (" (capped: the set stopped growing at the cap, so this is a lower bound)" if c["distinct_states_capped"] else "") + "."
        ),
        "simulated_runs": c["runs"],
        "runs_per_hour": int(c["runs"] / max(c["wall_s"], 1e-9) * 3600),
        "seeds": "run i uses seed splitmix64((VERIF_SEED ^ 0xC03) ^ i*phi); VERIF_SEED=%d" % seed,
        "simulated_time": "not applicable: no clock anywhere in the mechanism; simulated steps (treap operations, invariant walks) are counted instead",
        "faults_fired": "not applicable to this property: the injected nondeterminism is the priority assignment (see runs_by_priority_strategy) and the interleaving of operations on several live treaps",
        "real_vs_stub": {"real": ["rlib_treap::Treap", "rlib_treap::TreapNode (merge, split_at, split_by, push, update, collect_into)"], "stub": ["the item type stored in the treap (affine lazy map + order-sensitive aggregate)", "the priority source (verif hook; manual_insert uses the public priority field without any hook)"]},
        "samples": c["samples"],
        "build_s": round(build_s, 2),
    })
    assumptions = [
        "lawful items: the stub item implements update/push in the pattern of the library's README (modify applies to the node and its aggregate and records the map for the children)",
        "arithmetic modulo 2^61-1; a wrong sequence or aggregate escapes only on a hash collision",
        "sampling of histories and priority assignments, not proof",
    ]
    write_evidence("C03", tier, seed, "exploration", cov, assumptions, wall, real)
    log("C03 %s: %d histories, %d steps, %d distinct states, %d violating classes (%d not known) in %.1fs" % (tier, c["runs"], c["steps"], c["distinct_states"], len(mine), real, wall))
    return 1 if real else 0


def real_matrix(seed, count, big):
    """The (history, n, foreign-draw mode, stride, seed) matrix of real-priority runs."""
    rng = PyRng(seed ^ 0xC16)
    cfgs = []
    per_history = max(1, count // N_HISTORIES)
    for h in range(N_HISTORIES):
        for k in range(per_history):
            slot = k % 6
            if slot == 0:
                n, mode, stride = 1000, 0, 1
            elif slot == 1:
                n, mode, stride = 10_000, 1, rng.pick([2, 3, 4, 8])
            elif slot == 2:
                n, mode, stride = 100_000, 0, 1
            elif slot == 3:
                n, mode, stride = 100_000, 2, rng.pick([4, 16, 64])
            elif slot == 4:
                n, mode, stride = 10_000, 3, 2
            else:
                n, mode, stride = rng.pick([3000, 30_000, 100_000]), 1, rng.pick([5, 7, 16, 32, 100, 256, 1024])
            if k >= 6:
                n = rng.pick([500, 2000, 5000, 20_000, 50_000, 100_000, 200_000])
            cfgs.append({"history": h, "n": n, "mode": mode, "stride": stride, "seed": rng.next() % (1 << 48)})
    # systematic stride sweep: every stride of foreign draws up to a limit (a generator whose
    # sub-sampled stream degenerates only for particular strides is found by construction,
    # not by luck of the draw)
    top = 48 if count < 500 else 160
    for k in range(2, top + 1):
        for j in range(1 if count < 500 else 2):
            cfgs.append({"history": [0, 1, 2, 3, 5, 7, 9, 10, 12][(k + 4 * j) % 9], "n": 30_000 if count < 500 else 100_000, "mode": 1, "stride": k, "seed": rng.next() % (1 << 48)})
    # power-of-two strides: an LCG sub-sampled at stride 2^k keeps its low k+2 bits (nearly)
    # constant, so a generator whose priorities come from low bits shows it exactly here - the
    # usage is k treaps / buckets filled round-robin with a power-of-two count
    for k in range(11, 17 if count < 500 else 21):
        for j in range(1 if count < 500 else 2):
            cfgs.append({"history": [0, 1, 5, 7][(k + j) % 4], "n": 3000 if k <= 16 else 1500, "mode": 1, "stride": 1 << k, "seed": rng.next() % (1 << 48)})
    # large power-of-two strides with as many own nodes as a fixed budget of draws allows
    # (2.6e9 draws, about 7 s of one core each; the runs go in parallel): the period of the low
    # b bits sub-sampled at stride 2^k is 2^(b-k), so a short period needs either a big k or
    # many own nodes - this block gives every k its largest affordable n
    for k in range(14, 25):
        n = max(150, min(100_000, 2_600_000_000 >> k))
        for h in ((0, 7, 1, 5)[k % 4],) if count < 500 else (0, 7, (1, 5)[k % 2]):
            cfgs.append({"history": h, "n": n, "mode": 1, "stride": 1 << k, "seed": rng.next() % (1 << 48)})
    # composite strides m * 2^k (m small and odd): a usage where m groups of 2^k structures are
    # filled in lock-step; sub-sampling weaknesses of a generator need not sit at pure powers of two
    for m in ((3, 5) if count < 500 else (3, 5, 7, 9, 15)):
        for k in ((12, 14, 16) if count < 500 else range(10, 21)):
            stride = m << k
            n = max(150, min(100_000, 2_600_000_000 // stride))
            cfgs.append({"history": (0, 7, 1, 5)[(m + k) % 4], "n": n, "mode": 1, "stride": stride, "seed": rng.next() % (1 << 48)})
    for b in range(big):
        cfgs.append({"history": b % N_HISTORIES, "n": 1_000_000, "mode": [0, 1, 2][b % 3], "stride": rng.pick([2, 3, 8, 64]), "seed": rng.next() % (1 << 48)})
    return cfgs


def real_run(binary, cfg):
    cmd = [binary, "real", "--history", str(cfg["history"]), "--n", str(cfg["n"]), "--mode", str(cfg["mode"]), "--stride", str(cfg["stride"]), "--seed", str(cfg["seed"])]
    env = dict(ENV, **cfg["env"]) if cfg.get("env") else None
    try:
        rc, so, se = run(cmd, timeout=600, env=env)
    except subprocess.TimeoutExpired:
        return {"crash": "timeout (600 s)", "cfg": cfg}
    if rc != 0:
        return {"crash": "status %s: %s" % (rc, se[-300:]), "cfg": cfg}
    try:
        j = json.loads(so)
    except ValueError:
        return {"crash": "unparsable output", "cfg": cfg}
    j["cfg"] = cfg
    return j


def real_record(cfg, violation):
    return {
        "property": "C16",
        "violation": violation,
        "record": dict({"engine": "treapsim-real", "history_index": cfg["history"], "n": cfg["n"], "foreign_mode_index": cfg["mode"], "stride": cfg["stride"], "seed": cfg["seed"]}, **({"env": cfg["env"]} if cfg.get("env") else {})),
    }


def clock_shim():
    """Builds (once) the LD_PRELOAD clock seam sim/clockshim/clockshim.c; None when no C compiler
    is present (the clock runs are then skipped and the evidence says so)."""
    src = os.path.join(SIM, "clockshim", "clockshim.c")
    out = os.path.join(TARGET, "clockshim.so")
    if os.path.exists(out) and os.path.getmtime(out) >= os.path.getmtime(src):
        return out
    os.makedirs(TARGET, exist_ok=True)
    for cc in ("cc", "gcc", "clang"):
        if shutil.which(cc):
            p = subprocess.run([cc, "-shared", "-fPIC", "-O2", "-o", out, src, "-ldl"], stdout=subprocess.PIPE, stderr=subprocess.STDOUT, text=True)
            if p.returncode == 0:
                return out
    return None


def environment_knobs():
    """Names of environment variables the anchored crates read (std::env::var / var_os with a
    literal name).  The pinned tree reads none; a change that adds a knob (a seed override, a
    debug switch) is run with the knob set as well, because a deployment may set it."""
    names = set()
    for d in ("rlib/treap/src", "rlib/rand/src"):
        for root, _, files in os.walk(os.path.join(REPO, d)):
            for f in files:
                if f.endswith(".rs"):
                    text = open(os.path.join(root, f), errors="replace").read()
                    names.update(re.findall(r'\bvar(?:_os)?\(\s*"([A-Za-z_][A-Za-z0-9_]*)"', text))
    return sorted(names)


def minimise_real(binary, cfg, cls):
    """Shrinks n (and drops the foreign draws) while the same violation class persists; every
    candidate is executed in a fresh process."""
    best = dict(cfg)

    def fails(c):
        r = real_run(binary, c)
        if "crash" in r:
            return cls.startswith("treap/crash")
        return bool(r.get("violation")) and r["violation"]["class"] == cls

    if best["mode"] != 0:
        c = dict(best, mode=0, stride=1)
        if fails(c):
            best = c
    n = best["n"]
    while n > 16:
        c = dict(best, n=n // 2)
        if fails(c):
            best = c
            n //= 2
        else:
            break
    return best


def check_c16(tier, seed):
    from concurrent.futures import ThreadPoolExecutor

    ensure_dirs()
    t0 = time.time()
    ctl_runs, real_count, big = TREAP_TIERS["C16"][tier]
    c, build_s = treap_ctl(seed ^ 0x16, ctl_runs, "C16-" + tier)
    found = [v for v in c["violations"] if v["property"] == "C16"]
    for v in c["violations"]:
        if v["property"] != "C16":
            log("note: a %s violation was seen (class %s); it is reported by ./check %s" % (v["property"], v["class"], v["property"]))
            try:
                os.remove(v["replay"])
            except OSError:
                pass

    binary, bs2 = cargo_build("treapsim_plain", "sim-rel")
    build_s += bs2
    plain_summ, plain_found, bs3 = plain_ctl("C16", tier, seed)
    build_s += bs3
    found.extend(plain_found)
    cfgs = real_matrix(seed, real_count, big)
    knobs = environment_knobs()
    for name in knobs[:8]:
        for value in ("1", "42", "0", "true"):
            for h, n in ((14, 4000), (14, 20_000), (15, 5000), (10, 5000), (0, 5000)):
                cfgs.append({"history": h, "n": n, "mode": 0, "stride": 1, "seed": (seed * 31 + len(cfgs)) % (1 << 48), "env": {name: value}})
    # the wall clock as the simulator's: frozen, coarse, jumping back (for code that reads it -
    # nothing on the pinned tree does)
    shim = clock_shim()
    clock_runs = 0
    if shim:
        for mode in (("frozen", "coarse") if real_count < 500 else ("frozen", "coarse", "back")):
            for h, n in (((14, 4000), (14, 20_000), (15, 5000)) if real_count < 500 else ((14, 4000), (14, 20_000), (14, 100_000), (15, 5000), (10, 5000), (0, 5000))):
                cfgs.append({"history": h, "n": n, "mode": 0, "stride": 1, "seed": (seed * 37 + len(cfgs)) % (1 << 48), "env": {"LD_PRELOAD": shim, "VERIF_CLOCK_MODE": mode}})
                clock_runs += 1
    t1 = time.time()
    with ThreadPoolExecutor(max_workers=workers()) as ex:
        results = list(ex.map(lambda cfg: real_run(binary, cfg), cfgs))
    real_wall = time.time() - t1

    seen_classes = set()
    heights = []
    foreign = 0
    shape_digests = set()
    config_keys = set()
    by_history = {}
    for r in results:
        cfg = r["cfg"]
        config_keys.add((cfg["history"], cfg["n"], cfg["mode"], cfg["stride"]))
        if "crash" in r:
            cls, detail = "treap/crash/history%d/" % cfg["history"], "real-priority run %r terminated abnormally: %s" % (cfg, r["crash"])
        elif r.get("violation"):
            cls, detail = r["violation"]["class"], r["violation"]["detail"]
        else:
            heights.append((r["final_n"], r["final_height"], round(r["bound"], 1)))
            foreign += r["foreign_draws"]
            shape_digests.add(r["shape_digest"])
            by_history[r["history"]] = by_history.get(r["history"], 0) + 1
            continue
        if cls in seen_classes:
            continue
        seen_classes.add(cls)
        small = minimise_real(binary, cfg, cls)
        path = os.path.join(REPLAYS, "C16-real-%d-h%d-n%d.json" % (seed, small["history"], small["n"]))
        with open(path, "w") as f:
            json.dump(real_record(small, {"class": cls, "detail": detail}), f, indent=1)
        found.append({"class": cls, "detail": detail, "replay": path})

    real = settle("C16", found, treap_replay)
    wall = time.time() - t0
    worst = sorted(heights, key=lambda t: t[1] / t[2], reverse=True)[:5]
    cov = {
        "evaluations": len(results) + c["runs"],
        "distinct_nontrivial": len(shape_digests) + c["distinct_states"],
        "exhaustive": False,
        "rule": (
            "Two layers. (1) real-priority process runs: one (history, n, foreign-draw interleaving, stride, seed) per process, priorities drawn by the library's own generator; "
            "the simulator decides the history (16 adversarial orders, two of which build or edit pieces on other threads and hand them over) and how many foreign nodes are created between two own node creations on the shared generator; height and heap order are "
            "measured by an iterative walk at every doubling of n and at the end against 5*log2(n+1)+20. (2) controlled-priority histories (same engine as C03) watched for heap order "
            "(direction-agnostic) after every step under ties/spines. distinct_nontrivial = distinct final-tree digests of layer 1 + distinct (shape, pending-set) states of layer 2."
        ),
        "real_priority_process_runs": len(results),
        "hook_free_layer": plain_summ,
        "clock_seam": {"what": "cross-thread histories also run with CLOCK_REALTIME / gettimeofday / time answered by an LD_PRELOAD shim (sim/clockshim): frozen, coarse (10 ms every 4096 readings), and (thorough) jumping one hour back", "runs": clock_runs, "available": bool(shim)},
        "environment_knobs": {"what": "environment variables read by rlib_treap / rlib_rand through std::env::var with a literal name (static scan of the working tree); for each, cross-thread and plain histories are also run with the variable set to 1, 42, 0 and true", "found": knobs},
        "real_priority_distinct_configurations": len(config_keys),
        "real_priority_runs_by_history": by_history,
        "real_priority_foreign_draws_injected": foreign,
        "real_priority_largest_n": max([h[0] for h in heights] or [0]),
        "worst_height_vs_bound": [{"n": n, "height": h, "bound": b} for (n, h, b) in worst],
        "real_priority_runs_per_hour": int(len(results) / max(real_wall, 1e-9) * 3600),
        "controlled_layer": ctl_coverage(c),
        "simulated_runs": len(results) + c["runs"],
        "seeds": "matrix drawn from splitmix64 stream seeded with VERIF_SEED ^ 0xC16; VERIF_SEED=%d; controlled layer uses VERIF_SEED ^ 0x16" % seed,
        "simulated_time": "not applicable: no clock in the mechanism; operations and node creations are counted instead",
        "faults_fired": {"foreign_draws_on_shared_generator": foreign, "priority_ties_on_edges_controlled_layer": c["probes"].get("priority_tie_on_an_edge", 0)},
        "real_vs_stub": {"real": ["rlib_treap::Treap/TreapNode", "rlib_rand::Rng (the process-wide priority generator)", "TreapNode::new (foreign draws go through the public constructor)"], "stub": ["the item type (sized key, no lazy state) in layer 1; as for C03 in layer 2"]},
        "samples": [{k: r[k] for k in ("history", "n", "foreign_mode", "stride", "seed", "final_height", "bound", "checkpoints") if k in r} for r in results[:3] if "crash" not in r],
        "build_s": round(build_s, 2),
    }
    assumptions = [
        "the height clause is a statistical statement about the library's concrete generator, checked on sampled (history, interleaving) pairs; every stride of foreign draws from 2 to 48 (thorough: 160) is covered systematically, larger ones up to 1024 by sampling, and the powers of two 2^11..2^16 (thorough: 2^20)",
        "heap order is accepted in either direction as long as it is consistent over the whole tree",
        "sampling, not proof",
    ]
    write_evidence("C16", tier, seed, "exploration", cov, assumptions, wall, real)
    log("C16 %s: %d real-priority process runs (largest n %d), %d controlled histories, %d violating classes (%d not known) in %.1fs" % (tier, len(results), cov["real_priority_largest_n"], c["runs"], len(found), real, wall))
    return 1 if real else 0


# ---------------------------------------------------------------------------------------------
# mirisched (C17)

C17_TIERS = {"quick": 176, "thorough": 4096}
# higher pre-emption rates make narrow windows (two threads inside the same few statements)
# far more likely; 0.01 keeps nearly sequential schedules in the mix
MIRI_RATES = ["0.01", "0.1", "0.3", "0.6", "0.3", "0.6", "0.1", "0.3"]
MIRI_RUN_TIMEOUT = 240


def miri_env(seed, rate):
    env = dict(ENV)
    env["MIRIFLAGS"] = "-Zmiri-seed=%d -Zmiri-preemption-rate=%s -Zmiri-ignore-leaks" % (seed, rate)
    return env


def miri_args(cfg, mode="concurrent"):
    a = ["--mode", mode, "--threads", str(cfg["threads"]), "--hseed", str(cfg["hseed"]), "--ops", str(cfg["ops"])]
    if cfg.get("long"):
        a += ["--long", str(cfg["long"])]
    if cfg.get("bulk"):
        a += ["--bulk", str(cfg["bulk"])]
    if cfg.get("churn"):
        a += ["--churn", str(cfg["churn"])]
    if cfg.get("teardown"):
        a += ["--teardown", str(cfg["teardown"])]
    if cfg.get("barrier") and mode == "concurrent":
        a.append("--barrier")
    if cfg.get("stagger") and mode == "concurrent":
        a += ["--stagger", str(cfg["stagger"])]
    if cfg.get("stamped"):
        a.append("--stamped")
    if cfg.get("main_participates") and mode in ("concurrent", "serial", "baton"):
        a.append("--main-participates")
    return a


def miri_run(cfg):
    cmd = ["cargo", "+nightly", "miri", "run", "--offline", "-q", "--manifest-path", os.path.join(SIM, "Cargo.toml"), "-p", "mirisched", "--"] + miri_args(cfg)
    try:
        rc, so, se = run(cmd, env=miri_env(cfg["miri_seed"], cfg["rate"]), cwd=SIM, timeout=MIRI_RUN_TIMEOUT)
    except subprocess.TimeoutExpired:
        # a run normally takes about a second; a program that spins forever under Miri (a livelock
        # Miri's deadlock detection cannot see) is a finding, not a harness error
        return -999, "", "SIM-HANG: the program did not finish under Miri within %d s" % MIRI_RUN_TIMEOUT
    return rc, so, se


def parse_prints(out):
    prints = {}
    for line in out.splitlines():
        parts = line.split()
        if len(parts) >= 2 and parts[0].startswith("T") and parts[0][1:].isdigit() and parts[1] == "PRINT":
            prints[int(parts[0][1:])] = parts[2:]
    return prints


def parse_threads(out):
    prio, func, stamps, single = {}, {}, {}, None
    for line in out.splitlines():
        parts = line.split()
        if len(parts) >= 2 and parts[0].startswith("T") and parts[0][1:].isdigit():
            tid = int(parts[0][1:])
            if parts[1] == "PRIO":
                prio[tid] = [int(x) for x in parts[2:]]
            elif parts[1] == "FUNC":
                func[tid] = " ".join(parts[2:])
            elif parts[1] == "STAMPS":
                stamps[tid] = [int(x) for x in parts[2:]]
        elif parts and parts[0] == "SINGLE":
            single = [int(x) for x in parts[1:]]
    return prio, func, stamps, single


class SeqRef:
    """Sequential reference executions of the same program, produced by the real code natively."""

    def __init__(self, binary):
        self.binary = binary
        self.cache = {}
        self.prints = {}
        self.last_prints = {}  # PRINT lines of the most recent native() call

    def native(self, cfg, mode, extra=()):
        key = (cfg["threads"], cfg["hseed"], cfg["ops"], cfg.get("long", 0), cfg.get("bulk", 0), cfg.get("churn", 0), bool(cfg.get("main_participates")), mode, tuple(extra))
        if key not in self.cache:
            c = dict(cfg, stamped=False)
            rc, so, se = run([self.binary] + miri_args(c, mode) + list(extra), timeout=300)
            if rc != 0:
                raise HarnessError("native reference run failed (%s): %s" % (mode, se[-500:]))
            self.cache[key] = parse_threads(so)
            self.prints[key] = parse_prints(so)
        self.last_prints = self.prints.get(key, {})
        return self.cache[key]

    def reproducible(self, cfg):
        a = run([self.binary] + miri_args(dict(cfg, stamped=False), "serial"), timeout=300)[1]
        b = run([self.binary] + miri_args(dict(cfg, stamped=False), "serial"), timeout=300)[1]
        return a == b

    def producible(self, cfg, prio):
        """Is there a sequential execution of the same program (real code) that gives every
        thread exactly the priority sequence it observed?  Returns (ok, how / why-not)."""
        import itertools

        T = cfg["threads"]
        # thread-local designs are explained by the very first serial order; for many threads only
        # a few serial orders are tried before the general (interleaved) explanation is attempted
        for perm in itertools.islice(itertools.permutations(range(T)), 24):
            p, _, _, _ = self.native(cfg, "serial", ("--perm", ",".join(map(str, perm))))
            if p == prio:
                return True, "serial order %s" % (list(perm),)
        # designs in which a thread's stream depends on its POSITION in the order of first use
        # (per-thread generators seeded from a counter): T rotations of the identity order put
        # every thread at every position once; find an assignment thread -> position that explains
        # every observed stream, then confirm it with one native serial run in exactly that order
        if T > 1:
            at = {}  # (position, thread) -> stream
            for r in range(T):
                perm = [(j + r) % T for j in range(T)]
                p, _, _, _ = self.native(cfg, "serial", ("--perm", ",".join(map(str, perm))))
                for j, t in enumerate(perm):
                    at[(j, t)] = p.get(t)
            options = {t: [j for j in range(T) if at.get((j, t)) == prio.get(t)] for t in range(T)}

            def assign(t, used):
                if t == T:
                    return []
                for j in options[t]:
                    if j not in used:
                        rest = assign(t + 1, used | {j})
                        if rest is not None:
                            return [j] + rest
                return None

            pos = assign(0, frozenset())
            if pos is not None:
                order = sorted(range(T), key=lambda t: pos[t])
                p, _, _, _ = self.native(cfg, "serial", ("--perm", ",".join(map(str, order))))
                if p == prio:
                    return True, "serial order %s" % (order,)
        total = sum(len(v) for v in prio.values())
        _, _, _, single = self.native(cfg, "single", ("--draws", str(total + 8)))
        pos = {}
        for i, v in enumerate(single or []):
            pos.setdefault(v, []).append(i)
        order = {}
        used = set()
        for tid in sorted(prio):
            last = -1
            for v in prio[tid]:
                cands = [i for i in pos.get(v, []) if i not in used and i > last]
                if not cands:
                    dup = [i for i in pos.get(v, []) if i in used]
                    why = "duplicated: another draw already received stream position %d" % dup[0] if dup else ("out of order within the thread" if v in pos else "not a value of the sequential stream at all")
                    return False, "thread %d observed priority %d which no sequential execution hands out here (%s)" % (tid, v, why)
                used.add(cands[0])
                last = cands[0]
                order[cands[0]] = tid
        if sorted(order) != list(range(total)):
            missing = [i for i in range(total) if i not in order]
            return False, "draws at stream positions %s were lost (the %d draws do not form a prefix of the sequential stream)" % (missing[:6], total)
        seq = [order[i] for i in range(total)]
        p, _, _, _ = self.native(cfg, "baton", ("--order", ",".join(map(str, seq))))
        if p == prio:
            return True, "interleaved order %s" % seq
        return False, "the sequential execution with creation order %s gives %s, not the observed %s" % (seq, p, prio)


def c17_matrix(seed, count, deep=False):
    rng = PyRng(seed ^ 0xC17)
    cfgs = []
    for i in range(count):
        threads = 3 if rng.below(3) == 0 else 2
        ops = 5 + rng.below(10)
        if deep and i % 4 == 3:
            # thorough tier only: more threads and longer histories on a quarter of the runs
            threads = 3 + rng.below(2)
            ops = 12 + rng.below(13)
            if i % 16 == 3:
                threads, ops = 5 + rng.below(2), 6 + rng.below(5)
        cfgs.append({
            "miri_seed": rng.below(1 << 31),
            "rate": MIRI_RATES[i % len(MIRI_RATES)],
            "threads": threads,
            "hseed": rng.below(1 << 40),
            "ops": ops,
            "stamped": i % 2 == 0,
            "main_participates": rng.below(4) == 0,
            # a quarter of the runs end with a churn phase (remove one, insert one, 20-80 times)
            "churn": (20 + rng.below(61)) if i % 4 == 1 else 0,
            # some runs start their threads staggered (thread i yields i*k times first)
            "stagger": rng.below(12) if i % 5 == 2 else 0,
            # a third of the runs release their threads together through a start barrier
            "barrier": i % 3 == 0,
            # on some unstamped runs every spawned thread creates a few more nodes from a
            # thread-local destructor while it is torn down
            "teardown": (2 + rng.below(5)) if i % 6 == 1 else 0,
        })
    # long runs: more than 1024 (thorough: 4096) node creations per thread, so that anything that
    # happens only every N draws (batched statistics, periodic re-seeding, block reservations)
    # is executed at all; bare creations keep the Miri cost at a few seconds per run
    longs = [(2, 1100), (2, 1100), (3, 600), (2, 300)] if not deep else [(2, 1100)] * 6 + [(3, 1100)] * 4 + [(2, 4200)] * 4 + [(4, 600)] * 2
    # bulk runs (thorough only: formatting under Miri costs about 20 ms per dumped node): treaps of
    # 60 elements dumped through the library's Debug / TreePrinter paths by all threads at once
    for j in range(0 if not deep else 6):
        cfgs.append({
            "miri_seed": rng.below(1 << 31),
            "rate": ["0.1", "0.3", "0.03"][j % 3],
            "threads": 2 + j % 2,
            "hseed": rng.below(1 << 40),
            "ops": 3,
            "bulk": 60,
            "stamped": False,
            "main_participates": j % 2 == 1,
            "barrier": True,
        })
    for j, (threads, n) in enumerate(longs):
        cfgs.append({
            "miri_seed": rng.below(1 << 31),
            "rate": MIRI_RATES[(j + 1) % len(MIRI_RATES)],
            "threads": threads,
            "hseed": rng.below(1 << 40),
            "ops": 4,
            "long": n,
            "stamped": False,
            "main_participates": j % 3 == 2,
        })
    # first-draw storms: many threads whose very first draws happen at (nearly) the same time, at
    # high pre-emption rates - once-per-process windows (lazy initialisation, seed resolution,
    # "am I the first thread" checks) need exactly that, and the chance that some pair of threads
    # overlaps inside a two-statement window grows with the square of the thread count
    storms = 96 if not deep else 768
    for j in range(storms):
        cfgs.append({
            "miri_seed": rng.below(1 << 31),
            # measured with a seeded two-statement-window race: with a start barrier the hit rate
            # per run is 5-8 % at rates 0.01-0.1 and 3-8 threads, and about 0 at rates >= 0.3
            # (the second thread must reach the window before the first is scheduled again)
            "rate": ["0.03", "0.1", "0.01", "0.03"][j % 4],
            "threads": [8, 3, 8, 4][j % 4],
            "hseed": rng.below(1 << 40),
            "ops": 1 + j % 2,
            "stamped": j % 2 == 0,
            "main_participates": j % 3 == 0,
            "barrier": True,
            "stagger": 0,
            # short equal histories end together: overlapping teardowns on a quarter of the storms
            "teardown": 3 if j % 4 == 1 else 0,
        })
    cfgs.sort(key=lambda c: -(c.get("long", 0) + 4 * c.get("bulk", 0)))  # stable: the slow runs start first
    return cfgs


def c17_judge(cfg, rc, so, se, ref, check_stream):
    """Returns (class, detail) or None."""
    if rc == -999:
        return ("treapconc/hang/", "Miri (seed %d, preemption rate %s): %s" % (cfg["miri_seed"], cfg["rate"], se))
    if rc != 0:
        if "Undefined Behavior" in se:
            m = re.search(r"error: Undefined Behavior: ([^\n]*)", se)
            what = m.group(1) if m else "undefined behaviour"
            kind = "data-race" if "Data race" in what else "ub"
            where = re.findall(r"at (/repo/[^\s:]+:\d+)", se)
            return ("treapconc/%s/" % kind, "Miri (seed %d, preemption rate %s): %s%s" % (cfg["miri_seed"], cfg["rate"], what[:300], (" [in " + ", ".join(where[:3]) + "]") if where else ""))
        if "panicked" in se or "deadlock" in se:
            return ("treapconc/panic/", "program failed under Miri: " + se[-400:])
        raise HarnessError("miri run failed for a reason that is not a finding: " + se[-1500:])
    prio, func, stamps, _ = parse_threads(so)
    if len(prio) != cfg["threads"]:
        raise HarnessError("unexpected output of mirisched: " + so[-500:])
    for tid, f in sorted(func.items()):
        if not f.startswith("ok"):
            return ("treapconc/functional/", "thread %d's treap results differ from the same operations run alone: %s" % (tid, f))
    if check_stream:
        ok, how = ref.producible(cfg, prio)
        if not ok:
            return ("treapconc/stream/", "no sequential execution produces the observed per-thread priority streams: " + how)
        # the sequential execution that explains the priorities builds the same trees, so the
        # library's Debug / TreePrinter dumps taken during the concurrent run must equal its dumps
        want, got = ref.last_prints, parse_prints(so)
        for tid in sorted(got):
            if tid in want and got[tid] != want[tid]:
                return ("treapconc/dump/", "thread %d's Debug/TreePrinter dump of its own treap differs from the dump in the sequential execution that explains the priorities (%s): %s vs %s" % (tid, how, got[tid], want[tid]))
    return None


def c17_record(cfg, cls, detail):
    return {"property": "C17", "violation": {"class": cls, "detail": detail}, "record": dict(cfg, engine="mirisched")}


def miri_replay(path):
    rec = json.load(open(path))
    cfg = rec["record"]
    native, _ = cargo_build("mirisched", "sim-rel")
    ref = SeqRef(native)
    rc, so, se = miri_run(cfg)
    try:
        verdict = c17_judge(cfg, rc, so, se, ref, ref.reproducible(cfg))
    except HarnessError as e:
        return 2, str(e)
    if verdict:
        return 1, so + "\nREPLAY-VIOLATION class=%s detail=%s\n" % verdict
    return 0, so + "\nREPLAY-CLEAN\n"


def c17_minimise(cfg, cls, ref, check_stream):
    """Smaller programs shift Miri's schedule, so each candidate re-searches a small seed window."""
    best = dict(cfg)

    def fails(c):
        for ds in range(6):
            cc = dict(c, miri_seed=c["miri_seed"] + ds, rate="0.3" if ds else c["rate"])
            rc, so, se = miri_run(cc)
            try:
                v = c17_judge(cc, rc, so, se, ref, check_stream)
            except HarnessError:
                return None
            if v and v[0] == cls:
                return cc
        return None

    for change in ({"main_participates": False}, {"threads": 2}, {"stamped": False}):
        if any(best.get(k) != v for k, v in change.items()):
            c = fails(dict(best, **change))
            if c:
                best = c
    while best["ops"] > 1:
        c = fails(dict(best, ops=best["ops"] // 2))
        if not c:
            break
        best = c
    return best


def check_c17(tier, seed):
    from concurrent.futures import ThreadPoolExecutor

    ensure_dirs()
    t0 = time.time()
    count = C17_TIERS[tier]
    native, build_s = cargo_build("mirisched", "sim-rel")
    ref = SeqRef(native)
    # warm-up: builds the program for Miri (and the Miri sysroot if a fresh restore lacks it)
    tb = time.time()
    warm = {"miri_seed": 0, "rate": "0.1", "threads": 2, "hseed": 1, "ops": 2}
    rc, so, se = miri_run(warm)
    if rc != 0 and "Undefined Behavior" not in se:
        sys.stderr.write(se[-3000:])
        raise HarnessError("cannot run the program under Miri")
    build_s += time.time() - tb

    cfgs = c17_matrix(seed, count, deep=(tier == "thorough"))
    reproducible = ref.reproducible(cfgs[0])
    if not reproducible:
        log("note: the sequential reference is not reproducible across processes; the stream clause is switched off for this run")
    t1 = time.time()
    with ThreadPoolExecutor(max_workers=workers()) as ex:
        outs = list(ex.map(miri_run, cfgs))
    miri_wall = time.time() - t1

    found = []
    seen = set()
    interleavings = set()
    how_counts = {}
    draws = 0
    samples = []
    for cfg, (rc, so, se) in zip(cfgs, outs):
        verdict = c17_judge(cfg, rc, so, se, ref, reproducible)
        if rc == 0:
            prio, func, stamps, _ = parse_threads(so)
            draws += sum(len(v) for v in prio.values())
            if stamps:
                seq = tuple(t for _, t in sorted((s, tid) for tid, ss in stamps.items() for s in ss))
                switches = sum(1 for a, b in zip(seq, seq[1:]) if a != b)
                if switches >= 2:
                    interleavings.add(seq)
                if len(samples) < 3 and switches >= 2:
                    samples.append({"config": cfg, "creation_order_by_thread": list(seq), "priorities": {str(k): v for k, v in prio.items()}})
            if reproducible and not verdict:
                ok, how = ref.producible(cfg, prio)
                k = how.split(" [")[0].split(" order")[0]
                how_counts[k] = how_counts.get(k, 0) + 1
        if verdict and verdict[0] not in seen:
            seen.add(verdict[0])
            small = c17_minimise(cfg, verdict[0], ref, reproducible)
            rc2, so2, se2 = miri_run(small)
            v2 = c17_judge(small, rc2, so2, se2, ref, reproducible) or verdict
            path = os.path.join(REPLAYS, "C17-%d-%d.json" % (seed, small["miri_seed"]))
            with open(path, "w") as f:
                json.dump(c17_record(small, v2[0], v2[1]), f, indent=1)
            found.append({"class": v2[0], "detail": v2[1], "replay": path})

    real = settle("C17", found, miri_replay)
    wall = time.time() - t0
    if not samples:
        samples = [{"config": cfgs[0], "note": "no stamped run with >= 2 thread switches completed (every run ended in a Miri error)"}]
    cov = {
        "evaluations": len(cfgs),
        "distinct_nontrivial": len(interleavings),
        "exhaustive": False,
        "rule": (
            "A run = one execution of the multi-threaded program sim/mirisched under Miri with (-Zmiri-seed, -Zmiri-preemption-rate in {0.01,0.1,0.3,0.6} (weighted towards 0.3 and 0.6), 2-3 threads, "
            "optionally the main thread as participant, per-thread history of 5-14 (thorough: up to 24, with up to 6 threads) node creations / treap operations on thread-owned treaps whose item types (node layouts) differ between threads; plus a few long runs with 300-2100 (thorough: up to 4200) bare node creations per thread, (thorough only: a few bulk runs whose 60-element treaps are dumped through Debug/TreePrinter by all threads at once), plus first-draw storms: 3-8 threads released by a start barrier doing 1-2 creations each at pre-emption rates 0.01-0.1). One Miri seed = one exactly repeatable schedule. "
            "distinct_nontrivial = number of distinct global node-creation orders (sequence of thread ids sorted by a Relaxed stamp) with at least 2 thread switches, among the stamped half of the runs."
        ),
        "miri_executions": len(cfgs),
        "miri_executions_per_hour": int(len(cfgs) / max(miri_wall, 1e-9) * 3600),
        "priority_draws_observed": draws,
        "sequential_reference_reproducible": reproducible,
        "observed_streams_explained_by": how_counts,
        "simulated_runs": len(cfgs),
        "seeds": "Miri seeds and programs drawn from a splitmix64 stream seeded with VERIF_SEED ^ 0xC17; VERIF_SEED=%d" % seed,
        "simulated_time": "not applicable: no clock in the mechanism; Miri's scheduler decides pre-emption at basic-block granularity",
        "faults_fired": {"preemptive_thread_switches_between_creations": sum(sum(1 for a, b in zip(s, s[1:]) if a != b) for s in interleavings)},
        "real_vs_stub": {"real": ["rlib_treap (unmodified, feature verif OFF)", "rlib_rand::Rng", "std threads as interpreted by Miri (scheduler, data-race detector, weak-memory emulation)"], "stub": ["the item type (id + size)"]},
        "samples": samples,
        "build_s": round(build_s, 2),
    }
    assumptions = [
        "Miri's model of the Rust memory model and the reach of its seeded scheduler at the chosen pre-emption rates",
        "sequential reference streams are produced natively by the same program (real library code) with node creations serialised by a baton",
        "sampling of schedules, not proof",
    ]
    write_evidence("C17", tier, seed, "exploration", cov, assumptions, wall, real)
    log("C17 %s: %d Miri executions, %d distinct interleavings, %d violating classes (%d not known) in %.1fs" % (tier, len(cfgs), len(interleavings), len(found), real, wall))
    return 1 if real else 0


# ---------------------------------------------------------------------------------------------

def cmd_replay(path):
    if not os.path.exists(path):
        raise HarnessError("no such replay file: " + path)
    rec = json.load(open(path))
    engine = (rec.get("record") or rec).get("engine", "")
    if engine.startswith("iosim"):
        rc, out = iosim_replay(path)
    elif engine.startswith("treapsim"):
        rc, out = treap_replay(path)
    elif engine == "mirisched":
        rc, out = miri_replay(path)
    else:
        raise HarnessError("unknown engine in replay file: %r" % engine)
    sys.stdout.write(out)
    if rc == 1:
        log("VIOLATION property=%s replay=%s" % (rec.get("property", "?"), path))
    return rc if rc in (0, 1) else 2


CHECKS = {
    "C08": lambda tier, seed: check_iosim("C08", tier, seed),
    "C09": lambda tier, seed: check_iosim("C09", tier, seed),
    "C03": check_c03,
    "C16": check_c16,
    "C17": check_c17,
}


def cmd_setup():
    for profile in ("sim-rel", "sim-dbg"):
        cargo_build("iosim", profile)
        cargo_build("treapsim", profile)
        cargo_build("treapsim_plain", profile)
    for profile in ("sim-rel-oc", "sim-dbg-noc"):
        cargo_build("iosim", profile)
    cargo_build("mirisched", "sim-rel")
    if clock_shim() is None:
        log("setup: no C compiler - the clock seam of C16 will be skipped")
    rc, so, se = run(["cargo", "+nightly", "miri", "setup", "--offline"], cwd=SIM, timeout=3600)
    if rc != 0:
        sys.stderr.write(se[-3000:])
        raise HarnessError("cargo miri setup failed")
    rc, so, se = miri_run({"miri_seed": 0, "rate": "0.1", "threads": 2, "hseed": 1, "ops": 2})
    if rc != 0 and "Undefined Behavior" not in se:
        sys.stderr.write(se[-3000:])
        raise HarnessError("cannot run the program under Miri")
    log("setup: simulators built")
    return 0


def main(argv):
    try:
        if not argv:
            sys.stderr.write(__doc__ or "")
            return 2
        if argv[0] == "replay":
            return cmd_replay(argv[1])
        if argv[0] == "setup":
            return cmd_setup()
        if argv[0] == "selftest":
            import selftest

            return selftest.main(argv[1:])
        prop = argv[0]
        if prop not in CHECKS:
            sys.stderr.write("unknown property %s (claimed: %s)\n" % (prop, ", ".join(sorted(CHECKS))))
            return 2
        tier = os.environ.get("VERIF_TIER", "quick")
        if "--tier" in argv:
            tier = argv[argv.index("--tier") + 1]
        if tier not in ("quick", "thorough"):
            sys.stderr.write("bad tier %r\n" % tier)
            return 2
        seed = seed_from_env()
        log("check %s tier=%s VERIF_SEED=%d" % (prop, tier, seed))
        return CHECKS[prop](tier, seed)
    except ContainedStop as e:
        return e.code
    except HarnessError as e:
        log("HARNESS-ERROR: %s" % e)
        return 2
    except subprocess.TimeoutExpired as e:
        log("HARNESS-ERROR: timeout: %s" % e)
        return 2
