"""Validation of the machinery itself.

  check selftest determinism   every engine: same seed => identical per-run trace digests, across
                               processes and worker counts (and both profiles for iosim)
  check selftest sensitivity   deliberate property-breaking edits ("must be caught") and
                               behaviour-preserving edits ("must stay quiet"), applied one at a
                               time to /repo's working tree and reverted straight afterwards;
                               also every kept seeded change under /verif/seeded/*/patch.diff

  check selftest coverage      reach measurement: the iosim and treapsim engines are rebuilt with
                               source-based coverage instrumentation (nightly, scratch target dir
                               under /tmp, removed afterwards) and run on a reduced quick workload;
                               reports which lines of the anchored library files were executed

None is a registered check; the first two refuse to run when /repo has uncommitted changes.
"""

import json, os, subprocess, sys, time, glob

import vcheck
from vcheck import VERIF, REPO, SIM, ENV, HarnessError, log, cargo_build, run

RD = "rlib/io/src/reader.rs"
WR = "rlib/io/src/writer.rs"
TN = "rlib/treap/src/treap_node.rs"
TR = "rlib/treap/src/treap.rs"

REFILL_FIXED = """        let bytes = loop {
            match self.stdin.read(&mut self.buf[self.end..]) {
                // transient by the `Read` contract: retry, like `read_exact`/`read_to_end` do
                Err(e) if e.kind() == std::io::ErrorKind::Interrupted => continue,
                result => break result.unwrap(),
            }
        };
"""

TLS_RNG = """    RNG.with(|cell| {
        let mut rng = cell.get();
        // the high half of the LCG state: the low bits of an LCG are its weakest (sub-sampled at
        // stride 2^k the low k+2 bits barely move; with the low half as priority, 2^15 treaps
        // filled in lock-step each degenerated into a near chain)
        let priority = (rng.next_raw() >> 32) as Priority;
        cell.set(rng);
        priority
    })
"""

TLS_DECL = """thread_local! {
    // one generator per thread: `TreapNode::new` is a safe function and nodes are `Send`,
    // so a process-wide `static mut` was a data race as soon as two threads created nodes
    static RNG: Cell<Rng> = Cell::new(Rng::from_seed(thread_seed()));
}
"""

# (name, property whose quick check is run, must_be_caught, [(file, old, new), ...])
MUTANTS = [
    # ---- C08
    ("C08 revert fix: unwrap Interrupted in refill", "C08", True, [(RD, REFILL_FIXED, "        let bytes = self.stdin.read(&mut self.buf[self.end..]).unwrap();\n")]),
    ("C08 revert fix: peek returns stale byte at end of input", "C08", True, [(RD, "            if self.begin == self.end {\n                // end of input: there is no next byte, do not report a stale one\n                return 0;\n            }\n", "")]),
    ("C08 short read treated as end of input", "C08", True, [(RD, "        if bytes == 0 {\n            self.eof = true;", "        if bytes < self.buf.len() - self.end {\n            self.eof = true;")]),
    ("C08 String read checks eof before refilling", "C08", True, [(RD, "        while {\n            if reader.begin == reader.end {\n                reader.refill();\n            }\n            !reader.eof && !reader.peek().is_ascii_whitespace()\n        } {\n            result.push(reader.peek() as char);", "        while {\n            !reader.eof && !reader.peek().is_ascii_whitespace()\n        } {\n            result.push(reader.peek() as char);")]),
    ("C08 CR LF detected only inside the current buffer", "C08", True, [(RD, "if c == '\\r' && self.peek() == b'\\n' {", "if c == '\\r' && self.begin < self.end && self.buf[self.begin] == b'\\n' {")]),
    ("C08 refill forgets to reset begin after compaction", "C08", True, [(RD, "            self.end -= self.begin;\n            self.begin = 0;\n", "            self.end -= self.begin;\n")]),
    ("C08 Interrupted retried only once", "C08", True, [(RD, "Err(e) if e.kind() == std::io::ErrorKind::Interrupted => continue,", "Err(e) if e.kind() == std::io::ErrorKind::Interrupted => break self.stdin.read(&mut self.buf[self.end..]).unwrap(),")]),
    ("C08 Interrupted retried at most 32 times", "C08", True, [(RD, "        let bytes = loop {\n            match self.stdin.read(&mut self.buf[self.end..]) {", "        let mut attempts = 0;\n        let bytes = loop {\n            match self.stdin.read(&mut self.buf[self.end..]) {"), (RD, "Err(e) if e.kind() == std::io::ErrorKind::Interrupted => continue,", "Err(e) if e.kind() == std::io::ErrorKind::Interrupted && attempts < 32 => attempts += 1,")]),
    ("C08 harmless: buffer size 4 KiB", "C08", False, [(RD, "const BUF_SIZE: usize = 1 << 16;", "const BUF_SIZE: usize = 1 << 12;")]),
    ("C08 harmless: refill asks for at most 7 bytes", "C08", False, [(RD, "self.stdin.read(&mut self.buf[self.end..])", "self.stdin.read(&mut self.buf[self.end..(self.end + 7)])")]),
    # ---- C09
    ("C09 flush uses write instead of write_all", "C09", True, [(WR, "self.stdout.write_all(&self.buf[..self.end]).unwrap();", "let _ = self.stdout.write(&self.buf[..self.end]).unwrap();")]),
    ("C09 Drop does not flush", "C09", True, [(WR, "    fn drop(&mut self) {\n        self.flush();", "    fn drop(&mut self) {")]),
    ("C09 flush does not reset the fill level", "C09", True, [(WR, "        self.stdout.write_all(&self.buf[..self.end]).unwrap();\n        self.end = 0;", "        self.stdout.write_all(&self.buf[..self.end]).unwrap();")]),
    ("C09 reserve off by one (overflow by one byte)", "C09", True, [(WR, "if self.end + size > self.buf.len() {", "if self.end + size > self.buf.len() + 1 {")]),
    ("C09 reserve ignores the piece size", "C09", True, [(WR, "if self.end + size > self.buf.len() {", "if self.end >= self.buf.len() {")]),
    ("C09 long strings chunked one byte short", "C09", True, [(WR, "impl Writable for &str {\n    fn write(&self, writer: &mut Writer) {\n        for chunk in self.as_bytes().chunks(Writer::BUF_SIZE) {\n            writer.write_bytes(chunk);", "impl Writable for &str {\n    fn write(&self, writer: &mut Writer) {\n        for chunk in self.as_bytes().chunks(Writer::BUF_SIZE) {\n            writer.write_bytes(&chunk[..chunk.len().min(Writer::BUF_SIZE - 1)]);")]),
    ("C09 harmless: reserve flushes one byte early", "C09", False, [(WR, "if self.end + size > self.buf.len() {", "if self.end + size >= self.buf.len() {")]),
    ("C09 harmless: buffer size 4 KiB", "C09", False, [(WR, "const BUF_SIZE: usize = 1 << 16;", "const BUF_SIZE: usize = 1 << 12;")]),
    ("C09 harmless: flush after every write in every profile", "C09", False, [(WR, "        t.write(self);\n        #[cfg(debug_assertions)]\n        self.flush();", "        t.write(self);\n        self.flush();")]),
    # ---- C03
    ("C03 no push in merge (left branch)", "C03", True, [(TN, "            left.as_mut().unwrap().push();\n", "")]),
    ("C03 no push in merge (right branch)", "C03", True, [(TN, "            right.as_mut().unwrap().push();\n", "")]),
    ("C03 no push in split_at", "C03", True, [(TN, "        root.as_mut().unwrap().push();\n        if pos >", "        if pos >")]),
    ("C03 no push in split_by", "C03", True, [(TN, "        root.as_mut().unwrap().push();\n        if pred(", "        if pred(")]),
    ("C03 no push in first()", "C03", True, [(TR, "            node.push();\n            node = node.left", "            node = node.left")]),
    ("C03 no push in collect_into", "C03", True, [(TN, "        self.push();\n\n        if let Some(left) = &mut self.left {", "        if let Some(left) = &mut self.left {")]),
    ("C03 no update in merge (right branch)", "C03", True, [(TN, "            right.as_mut().unwrap().update();\n", "")]),
    ("C03 no update in split_by (go-left)", "C03", True, [(TN, "            root.as_mut().unwrap().left = b;\n            root.as_mut().unwrap().update();\n            (a, root)\n        }\n    }\n\n    pub fn push", "            root.as_mut().unwrap().left = b;\n            (a, root)\n        }\n    }\n\n    pub fn push")]),
    ("C03 split_at compares with >=", "C03", True, [(TN, "if pos > root", "if pos >= root")]),
    ("C03 update called with swapped children", "C03", True, [(TN, "        self.item.update(\n            self.left.as_ref().map(|x| &x.item),\n            self.right.as_ref().map(|x| &x.item),", "        self.item.update(\n            self.right.as_ref().map(|x| &x.item),\n            self.left.as_ref().map(|x| &x.item),")]),
    ("C03 remove_at merges in the wrong order", "C03", True, [(TR, "self.root = TreapNode::merge(t1, t3);", "self.root = TreapNode::merge(t3, t1);")]),
    ("C03 first() keeps its path in a fixed 64-entry array", "C03", True, [(TR, "        let mut node = self.root.as_mut()?;\n        while node.left.is_some() {\n            node.push();", "        let mut node = self.root.as_mut()?;\n        let mut path = [0u32; 64];\n        let mut depth = 0;\n        while node.left.is_some() {\n            path[depth] = node.priority;\n            depth += 1;\n            node.push();")]),
    ("C03 harmless: tie-break <= in merge", "C03", False, [(TN, "left.as_ref().unwrap().priority < right.as_ref().unwrap().priority", "left.as_ref().unwrap().priority <= right.as_ref().unwrap().priority")]),
    ("C03 harmless: max-heap instead of min-heap", "C03", False, [(TN, "left.as_ref().unwrap().priority < right.as_ref().unwrap().priority", "left.as_ref().unwrap().priority > right.as_ref().unwrap().priority")]),
    # ---- C16
    ("C16 constant priority", "C16", True, [(TN, "let priority = (rng.next_raw() >> 32) as Priority;", "let priority = { rng.next_raw(); 7 as Priority };")]),
    ("C16 counter priority", "C16", True, [(TN, TLS_RNG, "    static COUNTER: std::sync::atomic::AtomicU32 = std::sync::atomic::AtomicU32::new(0);\n    let _ = &RNG;\n    COUNTER.fetch_add(1, std::sync::atomic::Ordering::Relaxed)\n")]),
    ("C16 priority truncated to 4 bits", "C16", True, [(TN, "let priority = (rng.next_raw() >> 32) as Priority;", "let priority = (rng.next_raw() >> 60) as Priority;")]),
    ("C16 merge ignores priorities", "C16", True, [(TN, "left.as_ref().unwrap().priority < right.as_ref().unwrap().priority", "left.as_ref().unwrap().priority < u32::MAX")]),
    ("C16 generator never advances", "C16", True, [(TN, "        cell.set(rng);\n", "")]),
    ("C16 revert fix: every thread seeded with 42", "C16", True, [(TN, "Cell::new(Rng::from_seed(thread_seed()))", "Cell::new(Rng::from_seed(42))")]),
    ("C16 revert fix: priority from the low 32 bits", "C16", True, [(TN, "let priority = (rng.next_raw() >> 32) as Priority;", "let priority = rng.next_raw() as Priority;")]),
    ("C16 harmless: priority from bits 16..48", "C16", False, [(TN, "let priority = (rng.next_raw() >> 32) as Priority;", "let priority = (rng.next_raw() >> 16) as Priority;")]),
    ("C16 harmless: max-heap instead of min-heap", "C16", False, [(TN, "left.as_ref().unwrap().priority < right.as_ref().unwrap().priority", "left.as_ref().unwrap().priority > right.as_ref().unwrap().priority")]),
    # ---- C17
    ("C17 revert fix: unsynchronised static mut generator", "C17", True, [(TN, TLS_DECL, "static mut RNG: Rng = Rng::from_seed(42);\n"), (TN, TLS_RNG, "    #[allow(static_mut_refs)]\n    unsafe {\n        RNG.next_raw() as Priority\n    }\n")]),
    ("C17 global atomic state with separate load and store", "C17", True, [(TN, TLS_DECL, "static STATE: std::sync::atomic::AtomicU64 = std::sync::atomic::AtomicU64::new(42);\n"), (TN, TLS_RNG, "    let mut rng = Rng::from_seed(STATE.load(std::sync::atomic::Ordering::Relaxed));\n    let p = rng.next_raw();\n    STATE.store(p, std::sync::atomic::Ordering::Relaxed);\n    p as Priority\n")]),
    ("C17 push skipped while another thread is inside push (process-wide guard flag)", "C17", True, [(TN, "    pub fn push(&mut self) {\n        self.item.push(", "    pub fn push(&mut self) {\n        static IN_PUSH: std::sync::atomic::AtomicBool = std::sync::atomic::AtomicBool::new(false);\n        if IN_PUSH.swap(true, Ordering::AcqRel) {\n            return;\n        }\n        struct Reset;\n        impl Drop for Reset {\n            fn drop(&mut self) {\n                IN_PUSH.store(false, Ordering::Release);\n            }\n        }\n        let _reset = Reset;\n        self.item.push(")]),
    ("C03 remove_at merges in the wrong order - only when the verif feature is OFF", "C03", True, [(TR, "        self.root = TreapNode::merge(t1, t3);\n        t2.unwrap().item", "        #[cfg(feature = \"verif\")]\n        {\n            self.root = TreapNode::merge(t1, t3);\n        }\n        #[cfg(not(feature = \"verif\"))]\n        {\n            self.root = TreapNode::merge(t3, t1);\n        }\n        t2.unwrap().item")]),
    ("C08 end of input after a short read - only when the verif feature is OFF", "C08", True, [(RD, "        if bytes == 0 {\n            self.eof = true;\n        }", "        if bytes == 0 || (cfg!(not(feature = \"verif\")) && self.end + bytes < self.buf.len() && bytes == 3) {\n            self.eof = true;\n        }")]),
    ("C16 every thread seeds its generator from the wall clock", "C16", True, [(TN, "    static RNG: Cell<Rng> = Cell::new(Rng::from_seed(thread_seed()));", "    static RNG: Cell<Rng> = Cell::new(Rng::from_time());")]),
    ("C17 harmless: one global generator behind a Mutex", "C17", False, [(TN, TLS_DECL, "static RNG: std::sync::Mutex<Rng> = std::sync::Mutex::new(Rng::from_seed(42));\n"), (TN, TLS_RNG, "    RNG.lock().unwrap().next_raw() as Priority\n")]),
    ("C17 harmless: global atomic state advanced with fetch_update", "C17", False, [(TN, TLS_DECL, "static STATE: std::sync::atomic::AtomicU64 = std::sync::atomic::AtomicU64::new(42);\n"), (TN, TLS_RNG, "    use std::sync::atomic::Ordering::Relaxed;\n    let prev = STATE.fetch_update(Relaxed, Relaxed, |s| Some(Rng::from_seed(s).next_raw())).unwrap();\n    Rng::from_seed(prev).next_raw() as Priority\n")]),
]


def repo_clean():
    p = subprocess.run(["git", "-C", REPO, "status", "--porcelain", "--untracked-files=no"], stdout=subprocess.PIPE, text=True)
    return p.stdout.strip() == ""


def restore_repo():
    subprocess.run(["git", "-C", REPO, "checkout", "--", "."], check=False)


def apply_edits(edits):
    for f, old, new in edits:
        path = os.path.join(REPO, f)
        s = open(path).read()
        if old not in s:
            raise HarnessError("mutant pattern not found in %s: %r" % (f, old[:60]))
        open(path, "w").write(s.replace(old, new, 1))


def run_check(prop, timeout=3600):
    env = dict(os.environ)
    env["VERIF_TIER"] = "quick"
    t0 = time.time()
    p = subprocess.run([os.path.join(VERIF, "check"), prop, "--tier", "quick"], cwd=VERIF, env=env, stdout=subprocess.PIPE, stderr=subprocess.STDOUT, text=True, timeout=timeout)
    vio = [l for l in p.stdout.splitlines() if l.startswith("VIOLATION ")]
    return p.returncode, vio, time.time() - t0, p.stdout


def clean_replays():
    for f in glob.glob(os.path.join(vcheck.REPLAYS, "C*.json")):
        os.remove(f)


def sensitivity(args):
    if not repo_clean():
        raise HarnessError("/repo has uncommitted changes; refusing to run the sensitivity self-test")
    only = args[0] if args else None
    rows = []
    bad = 0
    saved_evidence = {p: open(os.path.join(vcheck.EVIDENCE, p + ".json")).read() for p in ("C03", "C08", "C09", "C16", "C17") if os.path.exists(os.path.join(vcheck.EVIDENCE, p + ".json"))}
    try:
        items = [(n, p, must, edits, None) for (n, p, must, edits) in MUTANTS]
        for d in sorted(glob.glob(os.path.join(VERIF, "seeded", "*"))):
            meta_p, patch = os.path.join(d, "meta.json"), os.path.join(d, "patch.diff")
            if os.path.exists(meta_p) and os.path.exists(patch):
                meta = json.load(open(meta_p))
                # a few kept changes are out of the quick tier's reach by design (documented in
                # their meta.json: caught by the thorough tier only)
                items.append(("seeded/" + os.path.basename(d), meta["property"], meta.get("quick_expected", "caught") == "caught", None, patch))
        # independently written behaviour-preserving refactors: every listed check must stay quiet
        for d in sorted(glob.glob(os.path.join(VERIF, "harmless", "*"))):
            meta_p = os.path.join(d, "meta.json")
            if os.path.exists(meta_p):
                meta = json.load(open(meta_p))
                for entry in meta.get("patches", ["patch.diff"]):
                    # an entry is a file name (every listed property must stay quiet) or an object
                    # {"file", "quiet": [...], "caught": [...]} for a rewrite that keeps some
                    # properties and is known to break another
                    if isinstance(entry, str):
                        entry = {"file": entry, "quiet": meta["properties"], "caught": []}
                    for prop in entry.get("quiet", []):
                        items.append(("harmless/%s/%s" % (os.path.basename(d), entry["file"]), prop, False, None, os.path.join(d, entry["file"])))
                    for prop in entry.get("caught", []):
                        items.append(("harmless/%s/%s" % (os.path.basename(d), entry["file"]), prop, True, None, os.path.join(d, entry["file"])))
        for name, prop, must, edits, patch in items:
            if only and only not in name and only != prop:
                continue
            try:
                if patch:
                    r = subprocess.run(["git", "-C", REPO, "apply", patch], stdout=subprocess.PIPE, stderr=subprocess.STDOUT, text=True)
                    if r.returncode != 0:
                        raise HarnessError("cannot apply %s: %s" % (patch, r.stdout))
                else:
                    apply_edits(edits)
                rc, vio, secs, out = run_check(prop)
            finally:
                restore_repo()
                clean_replays()
            caught = rc == 1 and len(vio) > 0
            ok = (caught == must) and rc in (0, 1)
            verdict = "ok" if ok else "WRONG"
            if not ok:
                bad += 1
            rows.append({"mutant": name, "check": prop, "expected": "caught" if must else "quiet", "exit": rc, "violations": len(vio), "seconds": round(secs, 1), "verdict": verdict})
            log("%-70s %s expected=%-6s exit=%d violations=%d %.1fs %s" % (name, prop, "caught" if must else "quiet", rc, len(vio), secs, verdict))
            if not ok:
                log(out[-1500:])
    finally:
        restore_repo()
        for p, text in saved_evidence.items():
            open(os.path.join(vcheck.EVIDENCE, p + ".json"), "w").write(text)
    os.makedirs(os.path.join(VERIF, "selftest"), exist_ok=True)
    path = os.path.join(VERIF, "selftest", "sensitivity.json")
    if only and os.path.exists(path):
        # a filtered run updates / adds its rows in the stored table (order of the full list kept)
        old = json.load(open(path))
        fresh = {(r["mutant"], r["check"]): r for r in rows}
        merged = [fresh.pop((r["mutant"], r["check"]), r) for r in old]
        order = [(n, p) for (n, p, _, _, _) in items]
        merged += [r for k, r in fresh.items()]
        merged.sort(key=lambda r: order.index((r["mutant"], r["check"])) if (r["mutant"], r["check"]) in order else len(order))
        rows_out = merged
    else:
        rows_out = rows
    json.dump(rows_out, open(path, "w"), indent=1)
    log("sensitivity: %d mutants, %d wrong" % (len(rows), bad))
    return 0 if bad == 0 else 1


def determinism(args):
    n = int(args[0]) if args else 2000
    problems = 0
    report = []
    for pkg, subs, profiles in (("iosim", ("reader", "writer"), ("sim-rel", "sim-dbg")), ("treapsim", (None,), ("sim-dbg",))):
        for profile in profiles:
            binary, _ = cargo_build(pkg, profile)
            for sub in subs:
                outs = []
                for w in (1, 16, 5, 16):
                    env = dict(ENV)
                    env["VERIF_WORKERS"] = str(w)
                    cmd = [binary, "digest"] + ([sub] if sub else []) + ["--runs", str(n), "--seed", "424242"]
                    rc, so, se = run(cmd, env=env, timeout=3600)
                    if rc != 0:
                        raise HarnessError("digest run failed: " + se[-500:])
                    outs.append(so)
                same = all(o == outs[0] for o in outs)
                lines = len(outs[0].splitlines())
                report.append({"engine": pkg, "mode": sub or "ctl", "profile": profile, "runs": lines, "processes": len(outs), "worker_counts": [1, 16, 5, 16], "identical": same})
                log("%s %s %s: %d run digests x %d processes (workers 1,16,5,16): %s" % (pkg, sub or "ctl", profile, lines, len(outs), "identical" if same else "DIFFERENT"))
                if not same:
                    problems += 1
    # value census: the summary (values, bytes, seam calls, partial transfers, interrupts) is a
    # function of the seed alone
    for profile in ("sim-rel", "sim-dbg"):
        binary, _ = cargo_build("iosim", profile)
        for side in ("writer", "reader"):
            outs = []
            for w in (1, 16, 5):
                env = dict(ENV)
                env["VERIF_WORKERS"] = str(w)
                rc, so, se = run([binary, "census", "--side", side, "--every32", "1024", "--wide-blocks", "4", "--seed", "424242", "--replay-dir", "/nonexistent", "--tag", "d"], env=env, timeout=3600)
                if rc != 0:
                    raise HarnessError("census run failed: " + se[-500:])
                outs.append("\n".join(l for l in so.splitlines() if '"wall_s"' not in l))
            same = all(o == outs[0] for o in outs)
            report.append({"engine": "iosim", "mode": "census-" + side, "profile": profile, "processes": len(outs), "worker_counts": [1, 16, 5], "identical": same})
            log("iosim census %s %s: summaries of %d processes (workers 1,16,5): %s" % (side, profile, len(outs), "identical" if same else "DIFFERENT"))
            if not same:
                problems += 1
    # hook-free controlled histories: a block in a fresh process is a repeatable value
    binary, _ = cargo_build("treapsim_plain", "sim-dbg")
    outs = []
    for _ in range(3):
        o = []
        for k in (0, 1, 7, 100, 1023):
            rc, so, se = run([binary, "ctlblock", "--seed", "424242", "--block", str(k)], timeout=600)
            if rc != 0:
                raise HarnessError("ctlblock failed: " + se[-300:])
            o.append(so)
        outs.append("".join(o))
    same = all(o == outs[0] for o in outs)
    report.append({"engine": "treapsim_plain", "mode": "ctlblock", "profile": "sim-dbg", "runs": 5 * 64, "processes": 15, "identical": same})
    log("treapsim_plain ctlblock: 5 blocks x 3 fresh processes each: %s" % ("identical" if same else "DIFFERENT"))
    if not same:
        problems += 1
    # Miri: same seed, same program => same output
    cfgs = vcheck.c17_matrix(424242, 16)
    a = [vcheck.miri_run(c) for c in cfgs]
    b = [vcheck.miri_run(c) for c in cfgs]
    same = all(x[0] == y[0] and x[1] == y[1] for x, y in zip(a, b))
    report.append({"engine": "mirisched", "runs": len(cfgs), "processes": 2, "identical": same})
    log("mirisched: %d Miri seeds executed twice: %s" % (len(cfgs), "identical" if same else "DIFFERENT"))
    if not same:
        problems += 1
    os.makedirs(os.path.join(VERIF, "selftest"), exist_ok=True)
    json.dump(report, open(os.path.join(VERIF, "selftest", "determinism.json"), "w"), indent=1)
    return 0 if problems == 0 else 1


def coverage(args):
    import shutil, tempfile
    tools = glob.glob(os.path.expanduser("~/.rustup/toolchains/nightly-x86_64-unknown-linux-gnu/lib/rustlib/*/bin"))
    if not tools or not os.path.exists(os.path.join(tools[0], "llvm-cov")):
        raise HarnessError("llvm-tools of the nightly toolchain not found")
    tools = tools[0]
    scratch = tempfile.mkdtemp(prefix="verif-cov-")
    try:
        env = dict(ENV)
        env["RUSTFLAGS"] = "-C instrument-coverage"
        env["CARGO_TARGET_DIR"] = os.path.join(scratch, "target")
        p = subprocess.run(["cargo", "+nightly", "build", "--offline", "--quiet", "--manifest-path", os.path.join(SIM, "Cargo.toml"), "--profile", "sim-dbg", "-p", "iosim", "-p", "treapsim"], cwd=SIM, env=env, stdout=subprocess.PIPE, stderr=subprocess.STDOUT, text=True)
        if p.returncode != 0:
            sys.stderr.write(p.stdout[-3000:])
            raise HarnessError("instrumented build failed")
        bindir = os.path.join(scratch, "target", "sim-dbg")
        report = {}
        plans = {
            "iosim": (
                [["reader", "--runs", "30000", "--long", "300"], ["writer", "--runs", "6000", "--sweep", "1"], ["census", "--side", "writer", "--every32", "512", "--wide-blocks", "4"], ["census", "--side", "reader", "--every32", "512", "--wide-blocks", "4"]],
                ["rlib/io/src/reader.rs", "rlib/io/src/writer.rs"],
            ),
            "treapsim": (
                [["ctl", "--runs", "50000"]] + [["real", "--history", str(h), "--n", "3000", "--mode", "1", "--stride", "3", "--seed", "7"] for h in range(vcheck.N_HISTORIES)],
                ["rlib/treap/src/treap.rs", "rlib/treap/src/treap_node.rs", "rlib/rand/src/lcg.rs"],
            ),
        }
        for engine, (cmds, files) in plans.items():
            raw = os.path.join(scratch, engine)
            os.makedirs(raw)
            e2 = dict(ENV)
            e2["LLVM_PROFILE_FILE"] = os.path.join(raw, "%p.profraw")
            for i, c in enumerate(cmds):
                extra = ["--out", os.path.join(raw, "out%d.json" % i), "--replay-dir", raw] if c[0] in ("reader", "writer", "ctl", "census") else []
                if c[0] in ("reader", "writer", "census"):
                    extra += ["--tag", "cov"]
                rc, so, se = run([os.path.join(bindir, engine)] + c + extra, env=e2, timeout=3600)
                if rc != 0:
                    raise HarnessError("instrumented %s %s failed: %s" % (engine, c[0], se[-400:]))
            prof = os.path.join(raw, "merged.profdata")
            subprocess.check_call([os.path.join(tools, "llvm-profdata"), "merge", "-sparse", "-o", prof] + glob.glob(os.path.join(raw, "*.profraw")))
            paths = [os.path.join(REPO, f) for f in files]
            exp = subprocess.run([os.path.join(tools, "llvm-cov"), "export", os.path.join(bindir, engine), "-instr-profile=" + prof] + paths, stdout=subprocess.PIPE, stderr=subprocess.PIPE, text=True)
            data = json.loads(exp.stdout)["data"][0]
            for f in data["files"]:
                rel = os.path.relpath(f["filename"], REPO)
                # segments: [line, col, count, has_count, is_region_entry, is_gap]
                missed = sorted(set(seg[0] for seg in f["segments"] if seg[3] and seg[4] and seg[2] == 0))
                summ = f["summary"]
                report[rel] = {
                    "engine": engine,
                    "lines": summ["lines"]["count"], "lines_executed": summ["lines"]["covered"],
                    "regions": summ["regions"]["count"], "regions_executed": summ["regions"]["covered"],
                    "functions": summ["functions"]["count"], "functions_executed": summ["functions"]["covered"],
                    "lines_with_an_unexecuted_region": missed,
                }
                log("%-32s %-9s lines %d/%d regions %d/%d functions %d/%d unexecuted regions start at lines %s" % (rel, engine, summ["lines"]["covered"], summ["lines"]["count"], summ["regions"]["covered"], summ["regions"]["count"], summ["functions"]["covered"], summ["functions"]["count"], missed))
        os.makedirs(os.path.join(VERIF, "selftest"), exist_ok=True)
        json.dump({"profile": "sim-dbg (debug assertions on)", "workload": "reduced quick workload, see lib/selftest.py coverage()", "files": report}, open(os.path.join(VERIF, "selftest", "coverage.json"), "w"), indent=1)
    finally:
        shutil.rmtree(scratch, ignore_errors=True)
    return 0


def main(argv):
    if not argv:
        sys.stderr.write(__doc__)
        return 2
    if argv[0] == "determinism":
        return determinism(argv[1:])
    if argv[0] == "sensitivity":
        return sensitivity(argv[1:])
    if argv[0] == "coverage":
        return coverage(argv[1:])
    sys.stderr.write(__doc__)
    return 2
